(* Lifting a simulation between two instances of the store interface (Model/McSys.v `store_ops`) to the
   whole system layer of Model/McSys.v, which is written once against that interface.

   Part 1 (Section Lift): so1, so2 two instances, Rs a relation between their stores such that every store
   operation that SUCCEEDS on the so2 side succeeds on the so1 side with the same output and Rs-related
   result (H_push .. H_live below).  Then every system-layer function that succeeds on the so2 side succeeds
   on the so1 side with the same output lists and related results:
     get_state_lift, set_state_lift, add_events_lift, deliver_lift, apply_event_lift, send_local_lift,
     crash_procs_lift, crash_node_lift, available_lift, cb_apply_lift, cb_run_lift, alternatives_eq /
     alternatives_lift, take_choice_lift, search_step_lift, steps_of_lift, all_choices_lift, expand_sys_lift.
   States/systems are related by StR/SysR: all fields equal except the store, which is related by Rs.

   Part 2 (Section Inst): so1 := concrete_ops (the model of the code's PendingEvents, Model/Store.v),
   so2 := abstract_ops (the one-list reference semantics, Spec/RefSys.v), Rs := StoreRefine.R tleb.
   All hypotheses of Part 1 hold (c_push .. c_live), hence
     concrete_simulates_reference_take_choice / _expand_sys / _cb_run (and the intermediate functions). *)
From Coq Require Import List NArith Bool Lia.
From ASV Require Import Base.Util Base.Msg Base.Log Model.Store Spec.StoreSpec Model.McSys Spec.RefSys
     Proofs.UtilP Proofs.StoreSpecP Proofs.StoreRefine.
Import ListNotations.
Open Scope N_scope.

(* H : bind X f = Ok r  ~~>  E : X = Ok x,  H : f x = Ok r *)
Ltac bind_inv H x E :=
  match type of H with
  | bind ?X _ = Ok _ => destruct X as [x|] eqn:E; cbn [bind] in H; [|discriminate H]
  end.

Lemma ok_inj {A} (x y : A) : Ok x = Ok y -> x = y.
Proof. intros H; inversion H; reflexivity. Qed.

Section Lift.
  Context {T SE1 SE2 : Type} (so1 : @store_ops T SE1) (so2 : @store_ops T SE2) (Rs : SE1 -> SE2 -> Prop).
  Variable tgt0 : T -> bool.
  Variable teq0 : T -> bool.
  Variable t0 : T.
  Variable clock : N -> T -> T.
  Context {PS : Type}.
  Variable handler : N -> PS -> input -> T -> (nat -> T) -> PS * list (action T).
  Variable DS : Type.
  Variable mc_rand : DS -> nat -> T.
  Variable ds_of1 : @mcstate T SE1 PS -> DS.
  Variable ds_of2 : @mcstate T SE2 PS -> DS.

  Notation sevent := (sevent T).
  Notation mcstate1 := (@mcstate T SE1 PS).
  Notation mcstate2 := (@mcstate T SE2 PS).
  Notation mcsys1 := (@mcsys T SE1 PS).
  Notation mcsys2 := (@mcsys T SE2 PS).

  (* so2 is simulated by so1 *)
  Hypothesis H_push : forall s a e a' i, Rs s a -> so_push so2 a e = Ok (a', i) ->
    exists s', so_push so1 s e = Ok (s', i) /\ Rs s' a'.
  Hypothesis H_push_fixed : forall s a e i a', Rs s a -> so_push_fixed so2 a e i = Ok a' ->
    exists s', so_push_fixed so1 s e i = Ok s' /\ Rs s' a'.
  Hypothesis H_pop : forall s a i a' e, Rs s a -> so_pop so2 a i = Ok (a', e) ->
    exists s', so_pop so1 s i = Ok (s', e) /\ Rs s' a'.
  Hypothesis H_cancel_timer : forall s a p n a', Rs s a -> so_cancel_timer so2 a p n = Ok a' ->
    exists s', so_cancel_timer so1 s p n = Ok s' /\ Rs s' a'.
  Hypothesis H_cancel_proc : forall s a p a' l, Rs s a -> so_cancel_proc so2 a p = Ok (a', l) ->
    exists s', so_cancel_proc so1 s p = Ok (s', l) /\ Rs s' a'.
  Hypothesis H_offered : forall s a mf l, Rs s a -> so_offered so2 a mf = Ok l -> so_offered so1 s mf = Ok l.
  Hypothesis H_get : forall s a i, Rs s a -> so_get so1 s i = so_get so2 a i.
  Hypothesis H_is_empty : forall s a b, Rs s a -> so_is_empty so2 a = Ok b -> so_is_empty so1 s = Ok b.
  Hypothesis H_live : forall s a, Rs s a -> so_live so1 s = so_live so2 a.

  Record StR (st1 : mcstate1) (st2 : mcstate2) : Prop := {
    StR_nodes : st_nodes st1 = st_nodes st2;
    StR_net : st_net st1 = st_net st2;
    StR_depth : st_depth st1 = st_depth st2;
    StR_trace : st_trace st1 = st_trace st2;
    StR_events : Rs (st_events st1) (st_events st2) }.

  Record SysR (s1 : mcsys1) (s2 : mcsys2) : Prop := {
    SysR_nodes : s_nodes s1 = s_nodes s2;
    SysR_net : s_net s1 = s_net s2;
    SysR_depth : s_depth s1 = s_depth s2;
    SysR_mf : s_mf s1 = s_mf s2;
    SysR_trace : s_trace s1 = s_trace s2;
    SysR_events : Rs (s_events s1) (s_events s2) }.

  Hypothesis H_ds : forall st1 st2, StR st1 st2 -> ds_of1 st1 = ds_of2 st2.

  Ltac sysproj := cbn [s_nodes s_net s_events s_depth s_mf s_trace sys_with with_events
                       st_nodes st_net st_events st_depth st_trace get_state].

  Ltac sysproj_in H := cbn [s_nodes s_net s_events s_depth s_mf s_trace sys_with with_events
                       st_nodes st_net st_events st_depth st_trace get_state] in H.

  (* rewrite the shared fields of s1 into those of s2 *)
  Ltac shared HR :=
    rewrite ?(SysR_nodes _ _ HR), ?(SysR_net _ _ HR), ?(SysR_depth _ _ HR), ?(SysR_mf _ _ HR), ?(SysR_trace _ _ HR).

  Lemma sys_with_R s1 s2 nodes net e1 e2 depth trace :
    SysR s1 s2 -> Rs e1 e2 -> SysR (sys_with s1 nodes net e1 depth trace) (sys_with s2 nodes net e2 depth trace).
  Proof.
    intros HR He. constructor; sysproj; auto. apply (SysR_mf _ _ HR).
  Qed.

  Lemma with_events_R s1 s2 e1 e2 : SysR s1 s2 -> Rs e1 e2 -> SysR (with_events s1 e1) (with_events s2 e2).
  Proof.
    intros HR He. unfold with_events. shared HR. apply sys_with_R; auto.
  Qed.

  (* ---------------- get_state / set_state ---------------- *)
  Lemma get_state_lift s1 s2 : SysR s1 s2 -> StR (get_state s1) (get_state s2).
  Proof.
    intros HR. constructor; sysproj.
    - rewrite (SysR_nodes _ _ HR). reflexivity.
    - apply (SysR_net _ _ HR).
    - apply (SysR_depth _ _ HR).
    - apply (SysR_trace _ _ HR).
    - apply (SysR_events _ _ HR).
  Qed.

  Lemma set_state_lift s1 s2 st1 st2 s2' :
    SysR s1 s2 -> StR st1 st2 -> set_state s2 st2 = Ok s2' ->
    exists s1', set_state s1 st1 = Ok s1' /\ SysR s1' s2'.
  Proof.
    intros HR HS H. unfold set_state in *.
    rewrite (SysR_nodes _ _ HR), (StR_nodes _ _ HS), (StR_net _ _ HS), (StR_depth _ _ HS), (StR_trace _ _ HS).
    bind_inv H nodes E. apply ok_inj in H. subst s2'.
    eexists. split; [reflexivity|]. apply sys_with_R; auto. apply (StR_events _ _ HS).
  Qed.

  Lemma ds_lift s1 s2 : SysR s1 s2 -> ds_of1 (get_state s1) = ds_of2 (get_state s2).
  Proof. intros HR. apply H_ds, get_state_lift, HR. Qed.

  (* ---------------- add_events ---------------- *)
  Lemma add_events_lift evs : forall s1 s2 s2',
    SysR s1 s2 -> add_events so2 tgt0 teq0 s2 evs = Ok s2' ->
    exists s1', add_events so1 tgt0 teq0 s1 evs = Ok s1' /\ SysR s1' s2'.
  Proof.
    induction evs as [|e r IH]; intros s1 s2 s2' HR H; cbn [add_events] in *.
    - apply ok_inj in H. subst s2'. exists s1. split; auto.
    - bind_inv H m E.
      match goal with |- exists s1', bind ?X _ = _ /\ _ =>
        assert (H1 : exists m1, X = Ok m1 /\ SysR m1 m) end.
      { pose proof (SysR_events _ _ HR) as He.
        destruct e as [ms src dst|p n d|p n]; shared HR.
        - bind_inv E x En. cbn [bind]. destruct x as [ev|m' src' dst'].
          + bind_inv E y Ep. destruct y as [st j]. apply ok_inj in E. subst m.
            destruct (H_push _ _ _ _ _ He Ep) as (st1 & Hp & HRs). rewrite Hp. cbn [bind].
            eexists. split; [reflexivity|]. apply sys_with_R; auto.
          + apply ok_inj in E. subst m. eexists. split; [reflexivity|]. apply sys_with_R; auto.
        - bind_inv E y Ep. destruct y as [st j]. apply ok_inj in E. subst m.
          destruct (H_push _ _ _ _ _ He Ep) as (st1 & Hp & HRs). rewrite Hp. cbn [bind].
          eexists. split; [reflexivity|]. apply sys_with_R; auto.
        - bind_inv E st Ep. apply ok_inj in E. subst m.
          destruct (H_cancel_timer _ _ _ _ _ He Ep) as (st1 & Hp & HRs). rewrite Hp. cbn [bind].
          eexists. split; [reflexivity|]. apply sys_with_R; auto. }
      destruct H1 as (m1 & Hm1 & HRm). rewrite Hm1. cbn [bind]. apply (IH _ _ _ HRm H).
  Qed.

  (* ---------------- deliver / apply_event / send_local ---------------- *)
  Lemma deliver_lift s1 s2 proc k s2' :
    SysR s1 s2 -> deliver so2 tgt0 teq0 t0 clock handler DS mc_rand ds_of2 s2 proc k = Ok s2' ->
    exists s1', deliver so1 tgt0 teq0 t0 clock handler DS mc_rand ds_of1 s1 proc k = Ok s1' /\ SysR s1' s2'.
  Proof.
    intros HR H. unfold deliver in *. rewrite (ds_lift _ _ HR). shared HR.
    destruct (sget N.compare proc (n_loc (s_net s2))) as [nname|]; [|discriminate H].
    destruct (sget N.compare nname (s_nodes s2)) as [nd|]; [|discriminate H].
    bind_inv H x E. destruct x as [[nd' evs] logs]. cbn [bind].
    eapply add_events_lift; [|exact H]. apply sys_with_R; auto. apply (SysR_events _ _ HR).
  Qed.

  Lemma apply_event_lift s1 s2 a s2' :
    SysR s1 s2 -> apply_event so2 tgt0 teq0 t0 clock handler DS mc_rand ds_of2 s2 a = Ok s2' ->
    exists s1', apply_event so1 tgt0 teq0 t0 clock handler DS mc_rand ds_of1 s1 a = Ok s1' /\ SysR s1' s2'.
  Proof.
    intros HR H. unfold apply_event in *. cbv zeta in *. shared HR.
    assert (HR1 : SysR (sys_with s1 (s_nodes s2) (s_net s2) (s_events s1) (s_depth s2 + 1) (s_trace s2 ++ [applied_log a]))
                       (sys_with s2 (s_nodes s2) (s_net s2) (s_events s2) (s_depth s2 + 1) (s_trace s2 ++ [applied_log a]))).
    { apply sys_with_R; auto. apply (SysR_events _ _ HR). }
    destruct a as [[m src dst o|p n d]|m src dst|m src dst|m cm src dst].
    - eapply deliver_lift; eauto.
    - eapply deliver_lift; eauto.
    - apply ok_inj in H. subst s2'. eexists. split; [reflexivity|exact HR1].
    - apply ok_inj in H. subst s2'. eexists. split; [reflexivity|exact HR1].
    - apply ok_inj in H. subst s2'. eexists. split; [reflexivity|exact HR1].
  Qed.

  Lemma send_local_lift s1 s2 node proc m s2' :
    SysR s1 s2 -> send_local so2 tgt0 teq0 t0 clock handler DS mc_rand ds_of2 s2 node proc m = Ok s2' ->
    exists s1', send_local so1 tgt0 teq0 t0 clock handler DS mc_rand ds_of1 s1 node proc m = Ok s1' /\ SysR s1' s2'.
  Proof.
    intros HR H. unfold send_local in *. cbv zeta in *. sysproj. sysproj_in H.
    rewrite (ds_lift _ _ HR). shared HR.
    destruct (sget N.compare node (s_nodes s2)) as [nd|]; [|discriminate H].
    bind_inv H x E. destruct x as [[nd' evs] logs]. cbn [bind].
    eapply add_events_lift; [|exact H]. apply sys_with_R; auto.
    - apply sys_with_R; auto. apply (SysR_events _ _ HR).
    - apply (SysR_events _ _ HR).
  Qed.

  (* ---------------- crash_node ---------------- *)
  Lemma crash_procs_lift procs : forall st1 st2 tr st2' tr',
    Rs st1 st2 -> crash_procs so2 st2 procs tr = Ok (st2', tr') ->
    exists st1', crash_procs so1 st1 procs tr = Ok (st1', tr') /\ Rs st1' st2'.
  Proof.
    induction procs as [|p r IH]; intros st1 st2 tr st2' tr' He H; cbn [crash_procs] in *.
    - apply ok_inj in H. inversion H; subst. exists st1. split; auto.
    - bind_inv H x E. destruct x as [st dropped].
      destruct (H_cancel_proc _ _ _ _ _ He E) as (st1' & Hc & HRs). rewrite Hc. cbn [bind].
      apply (IH _ _ _ _ _ HRs H).
  Qed.

  Lemma crash_node_lift s1 s2 node s2' :
    SysR s1 s2 -> crash_node so2 s2 node = Ok s2' ->
    exists s1', crash_node so1 s1 node = Ok s1' /\ SysR s1' s2'.
  Proof.
    intros HR H. unfold crash_node in *. cbv zeta in *. shared HR.
    destruct (sget N.compare node (s_nodes s2)) as [nd|]; [|discriminate H].
    bind_inv H x E. destruct x as [st tr']. apply ok_inj in H. subst s2'.
    destruct (crash_procs_lift _ _ _ _ _ _ (SysR_events _ _ HR) E) as (st1' & Hc & HRs).
    rewrite Hc. cbn [bind]. eexists. split; [reflexivity|]. apply sys_with_R; auto.
  Qed.

  (* ---------------- available ---------------- *)
  Lemma available_lift s1 s2 l : SysR s1 s2 -> available so2 s2 = Ok l -> available so1 s1 = Ok l.
  Proof.
    intros HR H. unfold available in *. rewrite (SysR_mf _ _ HR). apply (H_offered _ _ _ _ (SysR_events _ _ HR) H).
  Qed.

  (* ---------------- callbacks ---------------- *)
  Lemma cb_apply_lift s1 s2 o s2' :
    SysR s1 s2 -> cb_apply so2 tgt0 teq0 t0 clock handler DS mc_rand ds_of2 s2 o = Ok s2' ->
    exists s1', cb_apply so1 tgt0 teq0 t0 clock handler DS mc_rand ds_of1 s1 o = Ok s1' /\ SysR s1' s2'.
  Proof.
    intros HR H. destruct o as [node proc m|node|mf|o']; cbn [cb_apply] in *.
    - eapply send_local_lift; eauto.
    - eapply crash_node_lift; eauto.
    - apply ok_inj in H. subst s2'. eexists. split; [reflexivity|].
      constructor; sysproj; try apply HR. reflexivity.
    - apply ok_inj in H. subst s2'. eexists. split; [reflexivity|]. shared HR.
      apply sys_with_R; auto. apply (SysR_events _ _ HR).
  Qed.

  Theorem cb_run_lift ops : forall s1 s2 s2',
    SysR s1 s2 -> cb_run so2 tgt0 teq0 t0 clock handler DS mc_rand ds_of2 s2 ops = Ok s2' ->
    exists s1', cb_run so1 tgt0 teq0 t0 clock handler DS mc_rand ds_of1 s1 ops = Ok s1' /\ SysR s1' s2'.
  Proof.
    induction ops as [|o r IH]; intros s1 s2 s2' HR H; cbn [cb_run] in *.
    - apply ok_inj in H. subst s2'. exists s1. split; auto.
    - bind_inv H m E. destruct (cb_apply_lift _ _ _ _ HR E) as (m1 & Hm & HRm).
      rewrite Hm. cbn [bind]. apply (IH _ _ _ HRm H).
  Qed.

  (* ---------------- the strategy's transition function ---------------- *)
  Lemma alternatives_eq s1 s2 i : SysR s1 s2 -> alternatives so1 s1 i = alternatives so2 s2 i.
  Proof.
    intros HR. unfold alternatives. rewrite (H_get _ _ i (SysR_events _ _ HR)). reflexivity.
  Qed.

  Lemma alternatives_lift s1 s2 i l : SysR s1 s2 -> alternatives so2 s2 i = Ok l -> alternatives so1 s1 i = Ok l.
  Proof. intros HR H. rewrite (alternatives_eq _ _ i HR). exact H. Qed.

  Theorem take_choice_lift s1 s2 c s2' :
    SysR s1 s2 -> take_choice so2 tgt0 teq0 t0 clock handler DS mc_rand ds_of2 s2 c = Ok s2' ->
    exists s1', take_choice so1 tgt0 teq0 t0 clock handler DS mc_rand ds_of1 s1 c = Ok s1' /\ SysR s1' s2'.
  Proof.
    intros HR H. pose proof (SysR_events _ _ HR) as He.
    destruct c as [i|i|i|i]; cbn [take_choice] in *; bind_inv H x E; destruct x as [st e];
      destruct (H_pop _ _ _ _ _ He E) as (st1 & Hp & HRs); rewrite Hp; cbn [bind].
    - eapply apply_event_lift; [|exact H]. apply with_events_R; auto.
    - destruct e as [m src dst o|p n d]; [|discriminate H].
      eapply apply_event_lift; [|exact H]. apply with_events_R; auto.
    - destruct e as [m src dst o|p n d]; [|discriminate H].
      cbv zeta in *. bind_inv H st' E2.
      destruct (H_push_fixed _ _ _ _ _ HRs E2) as (st1' & Hp2 & HRs2). rewrite Hp2. cbn [bind].
      eapply apply_event_lift; [|exact H]. apply with_events_R; auto.
    - destruct e as [m src dst [md|d k c]|p n d]; try discriminate H.
      destruct (N.eqb k 0); [discriminate H|].
      bind_inv H sta E2.
      destruct (H_push_fixed _ _ _ _ _ HRs E2) as (st1' & Hp2 & HRs2). rewrite Hp2. cbn [bind].
      bind_inv H y E3. destruct y as [stb j].
      destruct (H_push _ _ _ _ _ HRs2 E3) as (st1'' & Hp3 & HRs3). rewrite Hp3. cbn [bind].
      eapply apply_event_lift; [|exact H]. apply with_events_R; auto.
  Qed.

  Lemma search_step_lift s1 s2 c s2' st2 :
    SysR s1 s2 -> search_step so2 tgt0 teq0 t0 clock handler DS mc_rand ds_of2 s2 c = Ok (s2', st2) ->
    exists s1' st1, search_step so1 tgt0 teq0 t0 clock handler DS mc_rand ds_of1 s1 c = Ok (s1', st1)
                    /\ SysR s1' s2' /\ StR st1 st2.
  Proof.
    intros HR H. unfold search_step in *. cbv zeta in *.
    bind_inv H m E. destruct (take_choice_lift _ _ _ _ HR E) as (m1 & Hm & HRm). rewrite Hm. cbn [bind].
    bind_inv H r E2. apply ok_inj in H. inversion H; subst; clear H.
    destruct (set_state_lift _ _ _ _ _ HRm (get_state_lift _ _ HR) E2) as (r1 & Hr & HRr).
    rewrite Hr. cbn [bind]. eexists. eexists. split; [reflexivity|]. split; auto.
    apply get_state_lift; auto.
  Qed.

  Lemma steps_of_lift cs : forall s1 s2 s2' l2,
    SysR s1 s2 -> steps_of so2 tgt0 teq0 t0 clock handler DS mc_rand ds_of2 s2 cs = Ok (s2', l2) ->
    exists s1' l1, steps_of so1 tgt0 teq0 t0 clock handler DS mc_rand ds_of1 s1 cs = Ok (s1', l1)
                   /\ SysR s1' s2' /\ Forall2 StR l1 l2.
  Proof.
    induction cs as [|c r IH]; intros s1 s2 s2' l2 HR H; cbn [steps_of] in *.
    - apply ok_inj in H. inversion H; subst. exists s1, []. split; auto.
    - bind_inv H x E. destruct x as [m st].
      destruct (search_step_lift _ _ _ _ _ HR E) as (m1 & st1 & Hm & HRm & HSt). rewrite Hm. cbn [bind].
      bind_inv H y E2. destruct y as [m' sts]. apply ok_inj in H. inversion H; subst; clear H.
      destruct (IH _ _ _ _ HRm E2) as (m1' & sts1 & Hm' & HRm' & HF). rewrite Hm'. cbn [bind].
      exists m1', (st1 :: sts1). split; [reflexivity|]. split; auto.
  Qed.

  Lemma all_choices_lift s1 s2 l : SysR s1 s2 -> all_choices so2 s2 = Ok l -> all_choices so1 s1 = Ok l.
  Proof.
    intros HR H. unfold all_choices in *. bind_inv H idl E.
    rewrite (available_lift _ _ _ HR E). cbn [bind]. rewrite <- H. clear H E.
    induction idl as [|i r IH]; [reflexivity|].
    rewrite (alternatives_eq _ _ i HR), IH. reflexivity.
  Qed.

  Theorem expand_sys_lift s1 s2 s2' l2 :
    SysR s1 s2 -> expand_sys so2 tgt0 teq0 t0 clock handler DS mc_rand ds_of2 s2 = Ok (s2', l2) ->
    exists s1' l1, expand_sys so1 tgt0 teq0 t0 clock handler DS mc_rand ds_of1 s1 = Ok (s1', l1)
                   /\ SysR s1' s2' /\ Forall2 StR l1 l2.
  Proof.
    intros HR H. unfold expand_sys in *. bind_inv H cs E.
    rewrite (all_choices_lift _ _ _ HR E). cbn [bind]. apply (steps_of_lift _ _ _ _ _ HR H).
  Qed.
End Lift.

(* ---------------------------------------------------------------------------------------------------- *)
(* A family of state projections that satisfies H_ds for every pair of instances related as above:       *)
(* ds_of = g applied to the store-independent view of the state (the live events listed by id).          *)
(* ---------------------------------------------------------------------------------------------------- *)
Section View.
  Context {T SE PS : Type} (so : @store_ops T SE).
  Definition st_view (st : @mcstate T SE PS) :=
    (st_nodes st, st_net st, so_live so (st_events st), st_depth st, st_trace st).
End View.

Lemma st_view_R {T SE1 SE2 PS : Type} (so1 : @store_ops T SE1) (so2 : @store_ops T SE2) (Rs : SE1 -> SE2 -> Prop) :
  (forall s a, Rs s a -> so_live so1 s = so_live so2 a) ->
  forall (st1 : @mcstate T SE1 PS) (st2 : @mcstate T SE2 PS), StR Rs st1 st2 -> st_view so1 st1 = st_view so2 st2.
Proof.
  intros Hl st1 st2 [H1 H2 H3 H4 H5]. unfold st_view. rewrite H1, H2, H3, H4, (Hl _ _ H5). reflexivity.
Qed.

(* ---------------------------------------------------------------------------------------------------- *)
(* Part 2: the model of the code (concrete_ops) simulates the reference semantics (abstract_ops)          *)
(* ---------------------------------------------------------------------------------------------------- *)
Section Inst.
  Context {T : Type} (tleb : T -> T -> bool).
  Variable store_eqb : (T -> T -> bool) -> store T -> store T -> bool.
  Variable sevent_eqb : (T -> T -> bool) -> sevent T -> sevent T -> bool.
  Notation so1 := (concrete_ops tleb store_eqb).
  Notation so2 := (abstract_ops tleb sevent_eqb).
  Notation R := (R tleb).

  Lemma a_do_inv (a : astore T) o a' out : a_do a o = Ok (a', out) -> legal a o = true /\ astep a o = (a', out).
  Proof.
    unfold a_do. destruct (legal a o); [|discriminate]. intros H. apply ok_inj in H. auto.
  Qed.

  (* step_R in the form needed here *)
  Lemma step_lift s a o a' out : R s a -> a_do a o = Ok (a', out) ->
    exists s', step tleb s o = Ok (s', out) /\ R s' a'.
  Proof.
    intros HR H. apply a_do_inv in H. destruct H as [Hl Hs].
    destruct (step_R tleb s a o HR Hl) as (s' & H1 & H2). rewrite Hs in H1, H2. cbn [fst snd] in *.
    exists s'. auto.
  Qed.

  Lemma c_push s a e a' i : R s a -> so_push so2 a e = Ok (a', i) ->
    exists s', so_push so1 s e = Ok (s', i) /\ R s' a'.
  Proof.
    cbn [so_push concrete_ops abstract_ops]. unfold a_push. intros HR H.
    bind_inv H x E. destruct x as [a1 out]. destruct out as [j| | |]; try discriminate H.
    apply ok_inj in H. inversion H; subst; clear H.
    destruct (step_lift _ _ _ _ _ HR E) as (s' & H1 & H2). cbn [step] in H1.
    bind_inv H1 y Ey. destruct y as [s1 j]. apply ok_inj in H1. inversion H1; subst; clear H1.
    exists s'. auto.
  Qed.

  Lemma c_push_fixed s a e i a' : R s a -> so_push_fixed so2 a e i = Ok a' ->
    exists s', so_push_fixed so1 s e i = Ok s' /\ R s' a'.
  Proof.
    cbn [so_push_fixed concrete_ops abstract_ops]. unfold a_push_fixed. intros HR H.
    bind_inv H x E. destruct x as [a1 out]. apply ok_inj in H. subst a1.
    destruct (step_lift _ _ _ _ _ HR E) as (s' & H1 & H2). cbn [step] in H1.
    bind_inv H1 y Ey. apply ok_inj in H1. inversion H1; subst; clear H1.
    exists s'. auto.
  Qed.

  Lemma c_pop s a i a' e : R s a -> so_pop so2 a i = Ok (a', e) ->
    exists s', so_pop so1 s i = Ok (s', e) /\ R s' a'.
  Proof.
    cbn [so_pop concrete_ops abstract_ops]. unfold a_pop. intros HR H.
    bind_inv H x E. destruct x as [a1 out]. destruct out as [|  |e'|]; try discriminate H.
    apply ok_inj in H. inversion H; subst; clear H.
    destruct (step_lift _ _ _ _ _ HR E) as (s' & H1 & H2). cbn [step] in H1.
    bind_inv H1 y Ey. destruct y as [s1 e1]. apply ok_inj in H1. inversion H1; subst; clear H1.
    exists s'. auto.
  Qed.

  Lemma c_cancel_timer s a p n a' : R s a -> so_cancel_timer so2 a p n = Ok a' ->
    exists s', so_cancel_timer so1 s p n = Ok s' /\ R s' a'.
  Proof.
    cbn [so_cancel_timer concrete_ops abstract_ops]. unfold a_cancel_timer. intros HR H.
    bind_inv H x E. destruct x as [a1 out]. apply ok_inj in H. subst a1.
    destruct (step_lift _ _ _ _ _ HR E) as (s' & H1 & H2). cbn [step] in H1.
    bind_inv H1 y Ey. apply ok_inj in H1. inversion H1; subst; clear H1.
    exists s'. auto.
  Qed.

  Lemma c_cancel_proc s a p a' l : R s a -> so_cancel_proc so2 a p = Ok (a', l) ->
    exists s', so_cancel_proc so1 s p = Ok (s', l) /\ R s' a'.
  Proof.
    cbn [so_cancel_proc concrete_ops abstract_ops]. unfold a_cancel_proc. intros HR H.
    bind_inv H x E. destruct x as [a1 out]. destruct out as [| | |l']; try discriminate H.
    apply ok_inj in H. inversion H; subst; clear H.
    destruct (step_lift _ _ _ _ _ HR E) as (s' & H1 & H2). cbn [step] in H1.
    bind_inv H1 y Ey. destruct y as [s1 l1]. apply ok_inj in H1. inversion H1; subst; clear H1.
    exists s'. auto.
  Qed.

  Lemma c_offered s a mf l : R s a -> so_offered so2 a mf = Ok l -> so_offered so1 s mf = Ok l.
  Proof.
    cbn [so_offered concrete_ops abstract_ops]. intros HR H. rewrite <- H.
    pose proof (observe_R tleb s a HR) as Ho. unfold observe, aobserve in Ho.
    destruct mf; inversion Ho; auto.
  Qed.

  (* the live events of the model, looked up by id, are the pending events of the specification *)
  Lemma sget_alive (a : astore T) i : NoDup (ids (pend a)) -> sget N.compare i (alive a) = aget a i.
  Proof.
    intros Hn. rewrite alive_alive', alive'_sget, aget_lookup by exact Hn. reflexivity.
  Qed.

  Lemma c_get s a i : R s a -> so_get so1 s i = so_get so2 a i.
  Proof.
    cbn [so_get concrete_ops abstract_ops]. intros HR.
    rewrite (R_evs _ _ _ HR). apply sget_alive. apply (R_nodup _ _ _ HR).
  Qed.

  Lemma alive_nil_iff (a : astore T) : alive a = [] <-> pend a = [].
  Proof.
    rewrite alive_alive'. split.
    - destruct (pend a) as [|[i e] l] eqn:Ep using rev_ind; [reflexivity|].
      rewrite alive'_snoc. intros H. exfalso. clear -H.
      destruct (alive' l) as [|[k v] r]; cbn [sins] in H; [discriminate|].
      destruct (N.compare i k); discriminate.
    - intros ->. reflexivity.
  Qed.

  Lemma c_is_empty s a b : R s a -> so_is_empty so2 a = Ok b -> so_is_empty so1 s = Ok b.
  Proof.
    cbn [so_is_empty concrete_ops abstract_ops]. intros HR H. apply ok_inj in H. subst b.
    unfold is_empty. rewrite (R_avail _ _ _ HR), (R_evs _ _ _ HR), aoffered_set_offset.
    destruct (pend a) as [|x l] eqn:Ep.
    - assert (Ha : alive a = []) by (apply alive_nil_iff; exact Ep). rewrite Ha. reflexivity.
    - destruct (offset tleb (x :: l)) eqn:Eo; [|reflexivity].
      exfalso. apply (offset_nonempty tleb (x :: l)); [discriminate|exact Eo].
  Qed.

  Lemma c_live s a : R s a -> so_live so1 s = so_live so2 a.
  Proof. cbn [so_live concrete_ops abstract_ops]. intros HR. apply (R_evs _ _ _ HR). Qed.

  (* the empty stores are related *)
  Lemma c_empty : R (so_empty so1) (so_empty so2).
  Proof. cbn [so_empty concrete_ops abstract_ops]. apply R_empty. Qed.

  (* ---------------- the system layer ---------------- *)
  Variable tgt0 : T -> bool.
  Variable teq0 : T -> bool.
  Variable t0 : T.
  Variable clock : N -> T -> T.
  Context {PS : Type}.
  Variable handler : N -> PS -> input -> T -> (nat -> T) -> PS * list (action T).
  Variable DS : Type.
  Variable mc_rand : DS -> nat -> T.
  Variable ds_of1 : @mcstate T (store T) PS -> DS.
  Variable ds_of2 : @mcstate T (astore T) PS -> DS.
  Hypothesis H_ds : forall st1 st2, StR R st1 st2 -> ds_of1 st1 = ds_of2 st2.

  Notation StRc := (StR (PS := PS) R).
  Notation SysRc := (SysR (PS := PS) R).

  Theorem concrete_simulates_reference_cb_run ops s1 s2 s2' :
    SysRc s1 s2 -> cb_run so2 tgt0 teq0 t0 clock handler DS mc_rand ds_of2 s2 ops = Ok s2' ->
    exists s1', cb_run so1 tgt0 teq0 t0 clock handler DS mc_rand ds_of1 s1 ops = Ok s1' /\ SysRc s1' s2'.
  Proof.
    apply (cb_run_lift so1 so2 R tgt0 teq0 t0 clock handler DS mc_rand ds_of1 ds_of2
             c_push c_cancel_timer c_cancel_proc H_ds).
  Qed.

  Theorem concrete_simulates_reference_take_choice s1 s2 c s2' :
    SysRc s1 s2 -> take_choice so2 tgt0 teq0 t0 clock handler DS mc_rand ds_of2 s2 c = Ok s2' ->
    exists s1', take_choice so1 tgt0 teq0 t0 clock handler DS mc_rand ds_of1 s1 c = Ok s1' /\ SysRc s1' s2'.
  Proof.
    apply (take_choice_lift so1 so2 R tgt0 teq0 t0 clock handler DS mc_rand ds_of1 ds_of2
             c_push c_push_fixed c_pop c_cancel_timer H_ds).
  Qed.

  Theorem concrete_simulates_reference_all_choices (s1 : @mcsys T (store T) PS) s2 l :
    SysRc s1 s2 -> all_choices so2 s2 = Ok l -> all_choices so1 s1 = Ok l.
  Proof. apply (all_choices_lift so1 so2 R c_offered c_get). Qed.

  Theorem concrete_simulates_reference_search_step s1 s2 c s2' st2 :
    SysRc s1 s2 -> search_step so2 tgt0 teq0 t0 clock handler DS mc_rand ds_of2 s2 c = Ok (s2', st2) ->
    exists s1' st1, search_step so1 tgt0 teq0 t0 clock handler DS mc_rand ds_of1 s1 c = Ok (s1', st1)
                    /\ SysRc s1' s2' /\ StRc st1 st2.
  Proof.
    apply (search_step_lift so1 so2 R tgt0 teq0 t0 clock handler DS mc_rand ds_of1 ds_of2
             c_push c_push_fixed c_pop c_cancel_timer H_ds).
  Qed.

  Theorem concrete_simulates_reference_expand_sys s1 s2 s2' l2 :
    SysRc s1 s2 -> expand_sys so2 tgt0 teq0 t0 clock handler DS mc_rand ds_of2 s2 = Ok (s2', l2) ->
    exists s1' l1, expand_sys so1 tgt0 teq0 t0 clock handler DS mc_rand ds_of1 s1 = Ok (s1', l1)
                   /\ SysRc s1' s2' /\ Forall2 StRc l1 l2.
  Proof.
    apply (expand_sys_lift so1 so2 R tgt0 teq0 t0 clock handler DS mc_rand ds_of1 ds_of2
             c_push c_push_fixed c_pop c_cancel_timer c_offered c_get H_ds).
  Qed.
End Inst.

(* H_ds holds for every projection that factors through the store-independent view *)
Lemma ds_view_ok {T PS DS : Type} (tleb : T -> T -> bool) store_eqb sevent_eqb
      (g : list (N * @mcnodestate T PS) * @mcnet T * list (id * sevent T) * N * list (logentry T) -> DS) :
  forall st1 st2, StR (R tleb) st1 st2 ->
    g (st_view (concrete_ops tleb store_eqb) st1) = g (st_view (abstract_ops tleb sevent_eqb) st2).
Proof.
  intros st1 st2 H. f_equal. apply (st_view_R _ _ (R tleb)); [|exact H].
  intros s a. apply c_live.
Qed.

Print Assumptions take_choice_lift.
Print Assumptions expand_sys_lift.
Print Assumptions cb_run_lift.
Print Assumptions concrete_simulates_reference_take_choice.
Print Assumptions concrete_simulates_reference_expand_sys.
Print Assumptions concrete_simulates_reference_cb_run.
Print Assumptions concrete_simulates_reference_search_step.
Print Assumptions concrete_simulates_reference_all_choices.
Print Assumptions c_is_empty.
Print Assumptions ds_view_ok.
