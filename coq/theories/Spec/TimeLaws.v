(* The laws of the time algebra the simulator theorems rely on, and an exact instance (integers) showing that
   they are satisfiable.  For IEEE binary64 (the executable instance Base/TimeF64.v) the order laws hold on
   non-NaN values and `tadd` is monotone (round-to-nearest is monotone); `add_zero` holds except for -0.0; these
   are assumptions about floating point, not proved here (DESIGN section 7). *)
From Coq Require Import ZArith Lia Bool.
From ASV Require Import Base.Util Model.Sim.

Record time_laws {T : Type} (ops : time_ops T) : Prop := {
  le_refl : forall a, tleb ops a a = true;
  le_trans : forall a b c, tleb ops a b = true -> tleb ops b c = true -> tleb ops a c = true;
  le_total : forall a b, tleb ops a b = true \/ tleb ops b a = true;
  le_antisym : forall a b, tleb ops a b = true -> tleb ops b a = true -> a = b;
  lt_spec : forall a b, tltb ops a b = true <-> (tleb ops a b = true /\ tleb ops b a = false);
  add_mono_r : forall a b c, tleb ops b c = true -> tleb ops (tadd ops a b) (tadd ops a c) = true;
  add_mono_l : forall a b c, tleb ops a b = true -> tleb ops (tadd ops a c) (tadd ops b c) = true;
  add_zero : forall a, tadd ops a (tz ops) = a;
  mul_nonneg : forall a b, tleb ops (tz ops) a = true -> tleb ops (tz ops) b = true -> tleb ops (tz ops) (tmul ops a b) = true;
  (* lerp stays inside its bounds: for 0 <= r <= 1 and mn <= mx:  mn <= mn + r * (mx - mn) <= mx *)
  lerp_bounds : forall mn mx r, tleb ops mn mx = true -> tleb ops (tz ops) r = true -> tleb ops r (tone ops) = true ->
      tleb ops mn (tadd ops mn (tmul ops r (tsub ops mx mn))) = true /\
      tleb ops (tadd ops mn (tmul ops r (tsub ops mx mn))) mx = true;
  zero_le_one : tleb ops (tz ops) (tone ops) = true;
  neg_eps_spec : forall d, tleb ops (tz ops) d = true -> tneg_eps_le ops d = true }.

(* an exact instance: integer time *)
Definition z_ops : time_ops Z :=
  {| tadd := Z.add; tsub := Z.sub; tmul := Z.mul; tltb := Z.ltb; tleb := Z.leb; tz := 0%Z; ttwo := 2%Z; tone := 1%Z;
     tneg_eps_le := fun d => Z.leb 0 d |}.

Lemma z_laws : time_laws z_ops.
Proof.
  constructor; cbn.
  - intros a. apply Z.leb_le. lia.
  - intros a b c H1 H2. apply Z.leb_le in H1, H2. apply Z.leb_le. lia.
  - intros a b. destruct (Z.le_ge_cases a b); [left | right]; apply Z.leb_le; lia.
  - intros a b H1 H2. apply Z.leb_le in H1, H2. lia.
  - intros a b. rewrite Z.ltb_lt, Z.leb_le, Z.leb_gt. lia.
  - intros a b c H. apply Z.leb_le in H. apply Z.leb_le. lia.
  - intros a b c H. apply Z.leb_le in H. apply Z.leb_le. lia.
  - intros a. lia.
  - intros a b H1 H2. apply Z.leb_le in H1, H2. apply Z.leb_le. nia.
  - intros mn mx r H1 H2 H3. apply Z.leb_le in H1, H2, H3. split; apply Z.leb_le; nia.
  - reflexivity.
  - intros d H. exact H.
Qed.
