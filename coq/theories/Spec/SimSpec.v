(* Common notions for the simulator theorems: running API call scripts, reachable states. *)
From ASV Require Import Base.Util Base.Msg Base.Log Model.Sim.

Section SimSpec.
  Context {T : Type} (ops : time_ops T).
  Context {PS : Type}.
  Variable handler : N -> PS -> input -> T -> (nat -> T) -> PS * list (action T) * nat.
  Variable init_state : N -> PS.
  Variable draws : nat -> T.
  Variable crash_order : list (@qevent T) -> list (@qevent T).

  Notation simsys := (@simsys T PS).
  Notation sim_op := (sim_op ops handler init_state draws crash_order).

  (* a script of API calls from a given state; every call gets the same (large) fuel for its loops *)
  Fixpoint run_ops (fuel : nat) (s : simsys) (l : list (sop (T := T))) : result (simsys * list sret) :=
    match l with
    | [] => Ok (s, [])
    | o :: r =>
      do (s1, ret) <- sim_op fuel s o;
      do (s2, rets) <- run_ops fuel s1 r;
      Ok (s2, ret :: rets)
    end.

  (* a state of some execution: reached from the empty System by some script (no panic, fuel not exhausted) *)
  Definition Reachable (s : simsys) : Prop :=
    exists fuel l rets, run_ops fuel (sys0 ops) l = Ok (s, rets).
End SimSpec.
