(* What the documentation of src/mc/predicates.rs says each library predicate means, as propositions over an
   McState.  Written from the doc comments, not from the code.  (Combinators: "Ok iff all invariants are
   satisfied", "Some iff at least one goal is reached", "Some iff all goals are reached", likewise for prunes and
   collects.) *)
From ASV Require Import Base.Util Base.Msg Base.Log Model.Store Model.McSys Model.Predicates.

Section PredSpec.
  Context {T SE PS : Type} (so : @store_ops T SE).
  Notation mcstate := (@mcstate T SE PS).
  Notation logentry := (logentry T).

  (* "a slice of trace that represents current model checker run": from the last McStarted entry on *)
  Definition CurrentRun (tr run : list logentry) : Prop :=
    (exists pre rest, tr = pre ++ LMcStarted :: rest /\ run = LMcStarted :: rest /\ ~ In LMcStarted rest)
    \/ (~ In LMcStarted tr /\ run = tr).

  Definition NoEvents (st : mcstate) : Prop := so_is_empty so (st_events st) = Ok true.
  Definition Outbox (st : mcstate) (node proc : N) (l : list msg) : Prop :=
    exists ns pe, sget N.compare node (st_nodes st) = Some ns /\ sget N.compare proc (ns_procs ns) = Some pe /\
                  pe_outbox pe = l.
  Definition Occurrences (p : logentry -> bool) (l : list logentry) : nat := length (filter p l).

  (* --- invariants: the proposition that the invariant is VIOLATED --- *)
  (* "Checks that state depth does not exceed the given value." *)
  Definition viol_state_depth (d : N) (st : mcstate) : Prop := (d < st_depth st)%N.
  (* "Checks that state depth for current run does not exceed the given value." : depth0 = depth when the run started *)
  Definition viol_state_depth_current_run (d depth0 : N) (st : mcstate) : Prop := (d < st_depth st - depth0)%N.
  (* "Verifies that the set of local messages delivered by a process matches exactly the expected messages.
      Message duplications or unexpected messages are not allowed."  (expected is a set: no duplicates.)
      While events are pending the set may still be incomplete; once nothing is pending it must be complete. *)
  Definition ok_received_messages (expected : list str) (st : mcstate) (outbox : list msg) : Prop :=
    NoDup (map data outbox) /\ (forall d, In d (map data outbox) -> In d expected) /\
    (NoEvents st -> forall d, In d expected -> In d (map data outbox)).

  (* --- goals / prunes / collects: the proposition that the predicate FIRES --- *)
  Definition fires_got_n_local_messages (node proc : N) (n : nat) (st : mcstate) : Prop :=
    exists l, Outbox st node proc l /\ length l = n.
  Definition fires_depth_reached (d : N) (st : mcstate) : Prop := (d <= st_depth st)%N.
  Definition fires_state_depth_exceeds (d : N) (st : mcstate) : Prop := (d < st_depth st)%N.
  Definition fires_event_happened_n_times_current_run (p : logentry -> bool) (n : nat) (st : mcstate) : Prop :=
    exists run, CurrentRun (st_trace st) run /\ (n <= Occurrences p run)%nat.
  Definition fires_events_limit (p : logentry -> bool) (limit : nat) (st : mcstate) : Prop :=
    (limit < Occurrences p (st_trace st))%nat.
  Definition fires_events_limit_per_proc (p : logentry -> N -> bool) (procs : list N) (limit : nat) (st : mcstate) : Prop :=
    exists proc, In proc procs /\ (limit < Occurrences (fun e => p e proc) (st_trace st))%nat.
  Definition fires_sent_messages_limit (k : N) (st : mcstate) : Prop :=
    exists node ns proc pe, In (node, ns) (st_nodes st) /\ In (proc, pe) (ns_procs ns) /\ (k < pe_sent pe)%N.

  (* "Prunes states where processes are mentioned in any permutation except the given one" (symmetry breaking):
     the listed processes must be first mentioned (as sender of a received message or owner of a fired timer, in
     the current run) in the order of the list: the sequence of first mentions is a prefix of the list. *)
  Fixpoint first_mentions (procs : list N) (seen : list N) (tr : list logentry) : list N :=
    match tr with
    | [] => []
    | e :: r => match mention e with
                | Some p => if nmem p procs && negb (nmem p seen) then p :: first_mentions procs (p :: seen) r
                            else first_mentions procs seen r
                | None => first_mentions procs seen r
                end
    end.
  Definition Prefix (a b : list N) : Prop := exists c, b = a ++ c.
  Definition fires_proc_permutations (procs : list N) (st : mcstate) : Prop :=
    exists run, CurrentRun (st_trace st) run /\ ~ Prefix (first_mentions procs [] run) procs.
End PredSpec.
