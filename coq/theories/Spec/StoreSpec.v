(* Specification of the pending-event store, written from the documentation of C20/C13, independent of
   the code's data structures: the pending events are ONE list in insertion order. *)
From ASV Require Import Base.Util Base.Msg Model.Store.

Section StoreSpec.
  Context {T : Type} (tleb : T -> T -> bool).
  Notation sevent := (sevent T).

  Record astore := {
    pend : list (id * sevent);      (* pending events, oldest insertion first *)
    amap : list ((N * N) * id);     (* (proc, timer name) -> id of the last timer pushed under that name *)
    anext : id }.

  Definition aempty : astore := {| pend := []; amap := []; anext := 0 |}.

  Definition same_group (e1 e2 : sevent) : bool :=
    match e1, e2 with
    | EMsg m1 s1 d1 _, EMsg m2 s2 d2 _ => msg_eqb m1 m2 && N.eqb s1 s2 && N.eqb d1 d2
    | _, _ => false
    end.
  (* timer e1 (set earlier) withholds timer e2 *)
  Definition blocks (e1 e2 : sevent) : bool :=
    match e1, e2 with
    | ETimer p1 _ d1, ETimer p2 _ d2 => N.eqb p1 p2 && tleb d1 d2
    | _, _ => false
    end.
  Definition withheld_by (e1 e2 : sevent) : bool := same_group e1 e2 || blocks e1 e2.

  (* ids offered, given the events inserted earlier (older) *)
  Fixpoint offered_from (older : list (id * sevent)) (l : list (id * sevent)) : list id :=
    match l with
    | [] => []
    | (i, e) :: r =>
      (if existsb (fun o => withheld_by (snd o) e) older then [] else [i]) ++ offered_from (older ++ [(i, e)]) r
    end.
  Definition is_msg (e : sevent) : bool := match e with EMsg _ _ _ _ => true | _ => false end.
  Definition aoffered_set (a : astore) : list id := nsort (offered_from [] (pend a)).
  Definition aoffered (a : astore) (messages_first : bool) : list id :=
    let all := aoffered_set a in
    if messages_first then
      match filter (fun i => existsb (fun p => N.eqb (fst p) i && is_msg (snd p)) (pend a)) all with
      | [] => all
      | l => l
      end
    else all.

  Definition pending_id (a : astore) (i : id) : bool := existsb (fun p => N.eqb (fst p) i) (pend a).
  Definition aget (a : astore) (i : id) : option sevent :=
    match find (fun p => N.eqb (fst p) i) (pend a) with Some p => Some (snd p) | None => None end.
  Definition aremove (i : id) (l : list (id * sevent)) := filter (fun p => negb (N.eqb (fst p) i)) l.

  (* live events listed by id *)
  Definition alive (a : astore) : list (id * sevent) :=
    fold_left (fun acc p => sins N.compare (fst p) (snd p) acc) (pend a) [].

  (* legality of an operation = what the rest of the crate may issue *)
  Definition legal (a : astore) (o : sop T) : bool :=
    match o with
    | OPush _ => true
    | OPushFixed e i => is_msg e && negb (pending_id a i) && N.ltb i (anext a)
    | OPop i => pending_id a i
    | OCancelTimer p n => match sget tkey_cmp (p, n) (amap a) with
                          | None => true
                          | Some i => pending_id a i
                          end
    | OCancelProc _ => true
    end.

  Definition astep (a : astore) (o : sop T) : astore * sout T :=
    match o with
    | OPush e =>
      let i := anext a in
      ({| pend := pend a ++ [(i, e)];
          amap := match e with ETimer p n _ => sins tkey_cmp (p, n) i (amap a) | _ => amap a end;
          anext := i + 1 |}, RId i)
    | OPushFixed e i =>
      ({| pend := pend a ++ [(i, e)];
          amap := match e with ETimer p n _ => sins tkey_cmp (p, n) i (amap a) | _ => amap a end;
          anext := anext a |}, RId i)
    | OPop i =>
      ({| pend := aremove i (pend a); amap := amap a; anext := anext a |},
       match aget a i with Some e => REvent e | None => RUnit end)
    | OCancelTimer p n =>
      match sget tkey_cmp (p, n) (amap a) with
      | None => (a, RUnit)
      | Some i => ({| pend := aremove i (pend a); amap := srem tkey_cmp (p, n) (amap a); anext := anext a |}, RUnit)
      end
    | OCancelProc p =>
      ({| pend := filter (fun ie => negb (touches p (snd ie))) (pend a); amap := amap a; anext := anext a |},
       RDropped (filter (fun ie => touches p (snd ie) && is_msg (snd ie)) (alive a)))
    end.

  Definition aobserve (a : astore) : sobs T :=
    {| ob_live := alive a; ob_offered := Ok (aoffered a false); ob_offered_mf := Ok (aoffered a true);
       ob_next := anext a |}.

  (* run a legal sequence; None = the sequence is not legal *)
  Fixpoint arun (a : astore) (ops : list (sop T)) : option (astore * list (sout T * sobs T)) :=
    match ops with
    | [] => Some (a, [])
    | o :: r =>
      if legal a o then
        let '(a1, out) := astep a o in
        match arun a1 r with
        | Some (a2, outs) => Some (a2, (out, aobserve a1) :: outs)
        | None => None
        end
      else None
    end.
End StoreSpec.
Arguments astore T : clear implicits.
Arguments aempty {T}.
