(* The reference semantics of a model-checked system: the system layer of Model/McSys.v run over the one-list
   specification of the pending events (Spec/StoreSpec.v) instead of the code's PendingEvents/DependencyResolver.
   A store operation that the specification does not allow (Spec.StoreSpec.legal) is an error (Panic 99).
   In this semantics a configuration's pending events are ONE list of copies and timers in insertion order,
   each message copy with its remaining fault budget; the enabled steps are: deliver / lose / corrupt / split
   the oldest copy of a group of identical messages, fire a timer that no earlier pending timer of its process
   with less-or-equal delay withholds (MessagesFirst: timers only when no message is enabled). *)
From ASV Require Import Base.Util Base.Msg Base.Log Model.Store Spec.StoreSpec Model.McSys.

Section RefSys.
  Context {T : Type} (tleb : T -> T -> bool).

  Definition a_do (a : astore T) (o : sop T) : result (astore T * sout T) :=
    if legal a o then Ok (astep a o) else Panic 99.

  Definition a_push (a : astore T) (e : sevent T) : result (astore T * id) :=
    do (a', out) <- a_do a (OPush e);
    match out with RId i => Ok (a', i) | _ => Panic 98 end.
  Definition a_push_fixed (a : astore T) (e : sevent T) (i : id) : result (astore T) :=
    do (a', _) <- a_do a (OPushFixed e i); Ok a'.
  Definition a_pop (a : astore T) (i : id) : result (astore T * sevent T) :=
    do (a', out) <- a_do a (OPop i);
    match out with REvent e => Ok (a', e) | _ => Panic 98 end.
  Definition a_cancel_timer (a : astore T) (p n : N) : result (astore T) :=
    do (a', _) <- a_do a (OCancelTimer p n); Ok a'.
  Definition a_cancel_proc (a : astore T) (p : N) : result (astore T * list (id * sevent T)) :=
    do (a', out) <- a_do a (OCancelProc p);
    match out with RDropped l => Ok (a', l) | _ => Panic 98 end.

  (* equality of abstract stores: same pending list (ids, events, order), same name map, same counter *)
  Definition astore_eqb (sevent_eqb : sevent T -> sevent T -> bool) (a b : astore T) : bool :=
    list_eqb (fun x y => N.eqb (fst x) (fst y) && sevent_eqb (snd x) (snd y)) (pend a) (pend b)
    && list_eqb (fun x y => N.eqb (fst (fst x)) (fst (fst y)) && N.eqb (snd (fst x)) (snd (fst y))
                            && N.eqb (snd x) (snd y)) (amap a) (amap b)
    && N.eqb (anext a) (anext b).

  Definition abstract_ops (sevent_eqb : (T -> T -> bool) -> sevent T -> sevent T -> bool) : @store_ops T (astore T) :=
    {| so_empty := aempty;
       so_push := a_push; so_push_fixed := a_push_fixed; so_pop := a_pop; so_cancel_timer := a_cancel_timer;
       so_cancel_proc := a_cancel_proc;
       so_offered := fun a mf => Ok (aoffered tleb a mf);
       so_get := fun a i => aget a i;
       so_is_empty := fun a => Ok (match pend a with [] => true | _ => false end);
       so_live := fun a => alive a;
       so_eqb := fun teqb => astore_eqb (sevent_eqb teqb) |}.
End RefSys.
