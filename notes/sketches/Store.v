(* Feasibility sketch (design round): model of PendingEvents + DependencyResolver, current-code semantics.
   ids, procs, names, delays are nat here; the real model abstracts delay over the time algebra. *)
From Coq Require Import List Arith Lia Bool PeanoNat.
Import ListNotations.

Definition id := nat.
Record mkey := { mk_msg : nat; mk_src : nat; mk_dst : nat }.
Definition mkey_eqb (a b : mkey) :=
  Nat.eqb (mk_msg a) (mk_msg b) && Nat.eqb (mk_src a) (mk_src b) && Nat.eqb (mk_dst a) (mk_dst b).

Inductive event :=
| EMsg (k : mkey) (opts : nat)
| ETimer (proc name delay : nat).

Record tinfo := { ti_proc : nat; ti_delay : nat; ti_blockers : list id }.

Record store := {
  evs : list (id * event);          (* BTreeMap: kept sorted by id *)
  tmap : list ((nat * nat) * id);   (* timer_mapping *)
  avail : list id;                  (* BTreeSet: kept sorted *)
  r_timers : list (id * tinfo);
  r_msgs : list (mkey * list id);   (* group -> deque *)
  r_ptimers : list (nat * list id); (* proc -> set of timer ids, sorted *)
  next : id }.

Definition empty : store := {| evs := []; tmap := []; avail := []; r_timers := []; r_msgs := []; r_ptimers := []; next := 0 |}.

Inductive result (A : Type) := Ok (a : A) | Panic (tag : nat).
Arguments Ok {A} a. Arguments Panic {A} tag.

(* sorted insert / remove on nat-keyed association lists *)
Fixpoint ins_sorted (x : nat) (l : list nat) : list nat :=
  match l with
  | [] => [x]
  | y :: r => if x <? y then x :: l else if x =? y then l else y :: ins_sorted x r
  end.
Definition rem (x : nat) (l : list nat) := filter (fun y => negb (x =? y)) l.
Fixpoint ains {A} (k : nat) (v : A) (l : list (nat * A)) : list (nat * A) :=
  match l with
  | [] => [(k, v)]
  | (k', v') :: r => if k <? k' then (k, v) :: l else if k =? k' then (k, v) :: r else (k', v') :: ains k v r
  end.
Fixpoint aget {A} (k : nat) (l : list (nat * A)) : option A :=
  match l with [] => None | (k', v) :: r => if k =? k' then Some v else aget k r end.
Definition arem {A} (k : nat) (l : list (nat * A)) := filter (fun p => negb (k =? fst p)) l.

Fixpoint mget (k : mkey) (l : list (mkey * list id)) : option (list id) :=
  match l with [] => None | (k', v) :: r => if mkey_eqb k k' then Some v else mget k r end.
Fixpoint mset (k : mkey) (v : list id) (l : list (mkey * list id)) : list (mkey * list id) :=
  match l with [] => [(k, v)] | (k', v') :: r => if mkey_eqb k k' then (k, v) :: r else (k', v') :: mset k v r end.
Definition mrem (k : mkey) (l : list (mkey * list id)) := filter (fun p => negb (mkey_eqb k (fst p))) l.

(* DependencyResolver *)
Definition add_timer (s : store) (proc delay : nat) (i : id) : result (store * bool) :=
  let pts := match aget proc (r_ptimers s) with Some l => l | None => [] end in
  let blockers := filter (fun j => match aget j (r_timers s) with Some t => ti_delay t <=? delay | None => false end) pts in
  match aget i (r_timers s) with
  | Some _ => Panic 1
  | None =>
    Ok ({| evs := evs s; tmap := tmap s; avail := avail s;
           r_timers := ains i {| ti_proc := proc; ti_delay := delay; ti_blockers := blockers |} (r_timers s);
           r_msgs := r_msgs s; r_ptimers := ains proc (ins_sorted i pts) (r_ptimers s); next := next s |},
        match blockers with [] => true | _ => false end)
  end.

Definition remove_timer (s : store) (i : id) : result (store * list id) :=
  match aget i (r_timers s) with
  | None => Panic 2
  | Some t =>
    match aget (ti_proc t) (r_ptimers s) with
    | None => Panic 3
    | Some pts =>
      if negb (existsb (Nat.eqb i) pts) then Panic 4 else
      let pts' := rem i pts in
      let timers1 := arem i (r_timers s) in
      let timers2 := map (fun p => if existsb (Nat.eqb (fst p)) pts'
                                   then (fst p, {| ti_proc := ti_proc (snd p); ti_delay := ti_delay (snd p);
                                                   ti_blockers := rem i (ti_blockers (snd p)) |})
                                   else p) timers1 in
      let unblocked := filter (fun j => match aget j timers2 with Some t' => match ti_blockers t' with [] => true | _ => false end | None => false end) pts' in
      Ok ({| evs := evs s; tmap := tmap s; avail := avail s; r_timers := timers2; r_msgs := r_msgs s;
             r_ptimers := match pts' with [] => arem (ti_proc t) (r_ptimers s) | _ => ains (ti_proc t) pts' (r_ptimers s) end;
             next := next s |}, unblocked)
    end
  end.

Definition add_message (s : store) (k : mkey) (i : id) : store * bool :=
  let q := match mget k (r_msgs s) with Some l => l | None => [] end in
  ({| evs := evs s; tmap := tmap s; avail := avail s; r_timers := r_timers s;
      r_msgs := mset k (q ++ [i]) (r_msgs s); r_ptimers := r_ptimers s; next := next s |},
   match q with [] => true | _ => false end).

(* current code: pops the FRONT whatever id is being removed *)
Definition remove_message (s : store) (k : mkey) : result (store * option id) :=
  match mget k (r_msgs s) with
  | None => Panic 5
  | Some q =>
    let q' := tl q in
    Ok ({| evs := evs s; tmap := tmap s; avail := avail s; r_timers := r_timers s;
           r_msgs := match q' with [] => mrem k (r_msgs s) | _ => mset k q' (r_msgs s) end;
           r_ptimers := r_ptimers s; next := next s |},
        match q' with [] => None | j :: _ => Some j end)
  end.

Definition with_avail (s : store) (a : list id) : store :=
  {| evs := evs s; tmap := tmap s; avail := a; r_timers := r_timers s; r_msgs := r_msgs s; r_ptimers := r_ptimers s; next := next s |}.
Definition with_evs (s : store) (e : list (id * event)) : store :=
  {| evs := e; tmap := tmap s; avail := avail s; r_timers := r_timers s; r_msgs := r_msgs s; r_ptimers := r_ptimers s; next := next s |}.

Fixpoint tmset (k : nat * nat) (v : id) (l : list ((nat * nat) * id)) :=
  match l with [] => [(k, v)]
  | (k', v') :: r => if (fst k =? fst k') && (snd k =? snd k') then (k, v) :: r else (k', v') :: tmset k v r end.
Fixpoint tmget (k : nat * nat) (l : list ((nat * nat) * id)) :=
  match l with [] => None
  | (k', v') :: r => if (fst k =? fst k') && (snd k =? snd k') then Some v' else tmget k r end.
Definition tmrem (k : nat * nat) (l : list ((nat * nat) * id)) :=
  filter (fun p => negb ((fst k =? fst (fst p)) && (snd k =? snd (fst p)))) l.

Definition push_fixed (s : store) (e : event) (i : id) : result store :=
  match aget i (evs s) with
  | Some _ => Panic 10
  | None =>
    match e with
    | EMsg k _ =>
      let '(s1, a) := add_message s k i in
      let s2 := if a then with_avail s1 (ins_sorted i (avail s1)) else s1 in
      Ok (with_evs s2 (ains i e (evs s2)))
    | ETimer p n d =>
      let s0 := {| evs := evs s; tmap := tmset (p, n) i (tmap s); avail := avail s; r_timers := r_timers s;
                   r_msgs := r_msgs s; r_ptimers := r_ptimers s; next := next s |} in
      match add_timer s0 p d i with
      | Panic t => Panic t
      | Ok (s1, a) =>
        let s2 := if a then with_avail s1 (ins_sorted i (avail s1)) else s1 in
        Ok (with_evs s2 (ains i e (evs s2)))
      end
    end
  end.

Definition push (s : store) (e : event) : result (store * id) :=
  let i := next s in
  let s' := {| evs := evs s; tmap := tmap s; avail := avail s; r_timers := r_timers s; r_msgs := r_msgs s;
               r_ptimers := r_ptimers s; next := S i |} in
  match push_fixed s' e i with Ok s'' => Ok (s'', i) | Panic t => Panic t end.

Definition pop (s : store) (i : id) : result (store * event) :=
  match aget i (evs s) with
  | None => Panic 20
  | Some e =>
    let s1 := with_avail (with_evs s (arem i (evs s))) (rem i (avail s)) in
    match e with
    | ETimer _ _ _ =>
      match remove_timer s1 i with
      | Panic t => Panic t
      | Ok (s2, unb) => Ok (with_avail s2 (fold_left (fun a j => ins_sorted j a) unb (avail s2)), e)
      end
    | EMsg k _ =>
      match remove_message s1 k with
      | Panic t => Panic t
      | Ok (s2, None) => Ok (s2, e)
      | Ok (s2, Some j) => Ok (with_avail s2 (ins_sorted j (avail s2)), e)
      end
    end
  end.

Definition cancel_timer (s : store) (p n : nat) : result store :=
  match tmget (p, n) (tmap s) with
  | None => Ok s
  | Some i =>
    let s1 := {| evs := evs s; tmap := tmrem (p, n) (tmap s); avail := avail s; r_timers := r_timers s;
                 r_msgs := r_msgs s; r_ptimers := r_ptimers s; next := next s |} in
    match pop s1 i with Ok (s2, _) => Ok s2 | Panic t => Panic t end
  end.

Definition touches (p : nat) (e : event) :=
  match e with EMsg k _ => (mk_src k =? p) || (mk_dst k =? p) | ETimer q _ _ => q =? p end.

Fixpoint pops (s : store) (ids : list id) (acc : list (id * event)) : result (store * list (id * event)) :=
  match ids with
  | [] => Ok (s, rev acc)
  | i :: r => match pop s i with
              | Panic t => Panic t
              | Ok (s', e) => pops s' r (match e with EMsg _ _ => (i, e) :: acc | _ => acc end)
              end
  end.
Definition cancel_proc (s : store) (p : nat) : result (store * list (id * event)) :=
  pops s (map fst (filter (fun ie => touches p (snd ie)) (evs s))) [].

(* available_events: assertion + ordering mode *)
Definition is_msg (s : store) (i : id) := match aget i (evs s) with Some (EMsg _ _) => true | _ => false end.
Definition offered (s : store) (messages_first : bool) : result (list id) :=
  match avail s, evs s with
  | [], _ :: _ => Panic 30
  | _, _ =>
    if messages_first then
      match filter (is_msg s) (avail s) with [] => Ok (avail s) | l => Ok l end
    else Ok (avail s)
  end.

(* ---- the F9 witness on the current-code semantics ---- *)
Definition bind {A B} (r : result A) (f : A -> result B) : result B :=
  match r with Ok a => f a | Panic t => Panic t end.
Definition K := {| mk_msg := 7; mk_src := 1; mk_dst := 2 |}.
Definition witness : result (list id * list id) :=
  bind (push empty (EMsg K 2)) (fun '(s, _) =>
  bind (push s (EMsg K 2)) (fun '(s, _) =>
  bind (pop s 0) (fun '(s, _) =>                       (* strategy: duplicate id 0 ... *)
  bind (push_fixed s (EMsg K 1) 0) (fun s =>           (* ... re-insert under the same id *)
  bind (push s (EMsg K 0)) (fun '(s, _) =>             (* ... and add the copy *)
  bind (cancel_proc s 2) (fun '(s, _) =>               (* crash of the destination *)
  Ok (avail s, map fst (evs s)))))))).
Eval vm_compute in witness.   (* expect offered = [0], live = [] : a dead id is offered *)
