From Coq Require Import List Arith Lia Bool PeanoNat.
Import ListNotations.
Require Import Store.

(* ---------- assoc-list lemmas ---------- *)
Lemma aget_ains_same {A} k (v : A) l : aget k (ains k v l) = Some v.
Proof.
  induction l as [|[k' v'] r IH]; cbn [ains aget].
  - now rewrite Nat.eqb_refl.
  - destruct (k <? k') eqn:E1; cbn [aget].
    + now rewrite Nat.eqb_refl.
    + destruct (k =? k') eqn:E2; cbn [aget].
      * now rewrite Nat.eqb_refl.
      * now rewrite E2.
Qed.

Lemma aget_ains_other {A} k k' (v : A) l : k <> k' -> aget k' (ains k v l) = aget k' l.
Proof.
  intros Hne. induction l as [|[k2 v2] r IH]; cbn [ains aget].
  - destruct (k' =? k) eqn:E; [apply Nat.eqb_eq in E; congruence | reflexivity].
  - destruct (k <? k2) eqn:E1; cbn [aget].
    + destruct (k' =? k) eqn:E; [apply Nat.eqb_eq in E; congruence | reflexivity].
    + destruct (k =? k2) eqn:E2; cbn [aget].
      * apply Nat.eqb_eq in E2; subst k2.
        destruct (k' =? k) eqn:E; [apply Nat.eqb_eq in E; congruence | reflexivity].
      * destruct (k' =? k2); [reflexivity | exact IH].
Qed.

Lemma aget_arem_same {A} k (l : list (nat * A)) : aget k (arem k l) = None.
Proof.
  induction l as [|[k' v'] r IH]; cbn; [reflexivity|].
  destruct (k =? k') eqn:E; cbn; [exact IH | now rewrite E].
Qed.

Lemma aget_arem_other {A} k k' (l : list (nat * A)) : k <> k' -> aget k' (arem k l) = aget k' l.
Proof.
  intros Hne. induction l as [|[k2 v2] r IH]; cbn; [reflexivity|].
  destruct (k =? k2) eqn:E; cbn.
  - apply Nat.eqb_eq in E; subst k2.
    destruct (k' =? k) eqn:E'; [apply Nat.eqb_eq in E'; congruence | exact IH].
  - destruct (k' =? k2); [reflexivity | exact IH].
Qed.

Lemma aget_map_val {A} (f : nat -> A -> A) k (l : list (nat * A)) :
  aget k (map (fun p => (fst p, f (fst p) (snd p))) l) = option_map (f k) (aget k l).
Proof.
  induction l as [|[k' v'] r IH]; cbn; [reflexivity|].
  destruct (k =? k') eqn:E; [apply Nat.eqb_eq in E; now subst | exact IH].
Qed.

Lemma In_rem x y l : In x (rem y l) <-> In x l /\ x <> y.
Proof.
  unfold rem. rewrite filter_In. split; intros [H1 H2]; split; auto.
  - intro; subst. now rewrite Nat.eqb_refl in H2.
  - destruct (y =? x) eqn:E; [apply Nat.eqb_eq in E; congruence | reflexivity].
Qed.

Lemma In_ins_sorted x y l : In x (ins_sorted y l) <-> x = y \/ In x l.
Proof.
  induction l as [|z r IH]; cbn [ins_sorted].
  - cbn; intuition.
  - destruct (y <? z); [cbn; intuition|].
    destruct (y =? z) eqn:E.
    + apply Nat.eqb_eq in E; subst. cbn; intuition.
    + cbn [In]. rewrite IH. intuition.
Qed.

(* ---------- timer half of the resolver: invariant ---------- *)
Definition blocks (s : store) (j i : id) : Prop :=
  exists tj ti, aget j (r_timers s) = Some tj /\ aget i (r_timers s) = Some ti /\
                j < i /\ ti_proc tj = ti_proc ti /\ ti_delay tj <= ti_delay ti.

Record TInv (s : store) : Prop := {
  ti_fresh : forall i t, aget i (r_timers s) = Some t -> i < next s;
  ti_pts : forall i t, aget i (r_timers s) = Some t ->
             exists l, aget (ti_proc t) (r_ptimers s) = Some l /\ In i l;
  ti_pts_conv : forall p l i, aget p (r_ptimers s) = Some l -> In i l ->
             exists t, aget i (r_timers s) = Some t /\ ti_proc t = p;
  ti_blk : forall i t, aget i (r_timers s) = Some t ->
             forall j, In j (ti_blockers t) <-> blocks s j i }.

Lemma TInv_empty : TInv empty.
Proof. split; cbn; intros; try discriminate. Qed.

(* add_timer with a fresh id preserves the invariant and reports availability correctly *)
Lemma add_timer_inv s p d s' a :
  TInv s -> add_timer (with_avail s (avail s)) p d (next s) = Ok (s', a) ->
  TInv {| evs := evs s'; tmap := tmap s'; avail := avail s'; r_timers := r_timers s'; r_msgs := r_msgs s';
          r_ptimers := r_ptimers s'; next := S (next s) |}
  /\ (a = true <-> forall j, ~ blocks s' j (next s)).
Proof.
  intros I H. unfold add_timer in H. cbn [r_ptimers r_timers with_avail evs tmap avail r_msgs next] in H.
  destruct (aget (next s) (r_timers s)) eqn:Hfresh.
  { exfalso. apply (ti_fresh s I) in Hfresh. lia. }
  set (pts := match aget p (r_ptimers s) with Some l => l | None => [] end) in *.
  set (blk := filter (fun j => match aget j (r_timers s) with Some t => ti_delay t <=? d | None => false end) pts) in *.
  injection H as Hs' Ha. subst s'. cbn [evs tmap avail r_timers r_msgs r_ptimers next].
  assert (Hpts : forall j, In j pts <-> exists t, aget j (r_timers s) = Some t /\ ti_proc t = p).
  { intro j. unfold pts. split.
    - destruct (aget p (r_ptimers s)) eqn:E; [|intros []]. intro Hin. eapply ti_pts_conv; eauto.
    - intros [t [Ht Hp]]. destruct (ti_pts s I _ _ Ht) as [l [Hl Hin]]. rewrite Hp in Hl. now rewrite Hl. }
  assert (Hblk : forall j, In j blk <-> exists t, aget j (r_timers s) = Some t /\ ti_proc t = p /\ ti_delay t <= d).
  { intro j. unfold blk. rewrite filter_In, Hpts. split.
    - intros [[t [Ht Hp]] Hd]. rewrite Ht in Hd. apply Nat.leb_le in Hd. eauto.
    - intros [t [Ht [Hp Hd]]]. split; [eauto|]. rewrite Ht. now apply Nat.leb_le. }
  split.
  - split; cbn [r_timers r_ptimers next].
    + intros i t Hi. destruct (Nat.eq_dec (next s) i) as [<-|Hne]; [lia|].
      rewrite aget_ains_other in Hi by exact Hne. apply (ti_fresh s I) in Hi. lia.
    + intros i t Hi. destruct (Nat.eq_dec (next s) i) as [<-|Hne].
      * rewrite aget_ains_same in Hi. injection Hi as <-. cbn [ti_proc].
        exists (ins_sorted (next s) pts). rewrite aget_ains_same. split; [reflexivity|].
        apply In_ins_sorted; now left.
      * rewrite aget_ains_other in Hi by exact Hne.
        destruct (ti_pts s I _ _ Hi) as [l [Hl Hin]].
        destruct (Nat.eq_dec p (ti_proc t)) as [Heq|Hp].
        -- exists (ins_sorted (next s) pts). rewrite <- Heq. rewrite aget_ains_same. split; [reflexivity|].
           apply In_ins_sorted. right. apply Hpts. eauto.
        -- exists l. rewrite aget_ains_other by exact Hp. split; assumption.
    + intros q l i Hq Hin. destruct (Nat.eq_dec p q) as [<-|Hp].
      * rewrite aget_ains_same in Hq. injection Hq as <-. apply In_ins_sorted in Hin as [->|Hin].
        -- eexists. rewrite aget_ains_same. split; reflexivity.
        -- apply Hpts in Hin as [t [Ht Hp]]. exists t. split; [|exact Hp].
           rewrite aget_ains_other; [exact Ht|]. intro E. rewrite <- E in Ht. congruence.
      * rewrite aget_ains_other in Hq by exact Hp.
        destruct (ti_pts_conv s I _ _ _ Hq Hin) as [t [Ht Hpt]]. exists t. split; [|exact Hpt].
        rewrite aget_ains_other; [exact Ht|]. intro E. rewrite <- E in Ht. congruence.
    + intros i t Hi j. destruct (Nat.eq_dec (next s) i) as [<-|Hne].
      * rewrite aget_ains_same in Hi. injection Hi as <-. cbn [ti_blockers]. rewrite Hblk.
        unfold blocks; cbn [r_timers]. split.
        -- intros [tj [Htj [Hp Hd]]]. assert (j < next s) by (eapply ti_fresh; eauto).
           exists tj. eexists. rewrite aget_ains_other by lia. rewrite aget_ains_same.
           repeat split; eauto.
        -- intros [tj [ti [Htj [Hti [Hlt [Hp Hd]]]]]]. rewrite aget_ains_same in Hti. injection Hti as <-.
           rewrite aget_ains_other in Htj by lia. cbn in *. eauto.
      * rewrite aget_ains_other in Hi by exact Hne. rewrite (ti_blk s I _ _ Hi).
        unfold blocks; cbn [r_timers]. split.
        -- intros [tj [ti [Htj [Hti [Hlt [Hp Hd]]]]]]. assert (j < next s) by (eapply ti_fresh; eauto).
           exists tj, ti. rewrite !aget_ains_other by lia. auto.
        -- intros [tj [ti [Htj [Hti [Hlt [Hp Hd]]]]]]. rewrite aget_ains_other in Hti by exact Hne.
           assert (i < next s) by (eapply ti_fresh; eauto).
           rewrite aget_ains_other in Htj by lia. exists tj, ti. auto.
  - unfold blocks; cbn [r_timers]. split.
    + intros Hat j [tj [ti [Htj [Hti [Hlt [Hp Hd]]]]]]. rewrite aget_ains_same in Hti. injection Hti as <-.
      rewrite aget_ains_other in Htj by lia. cbn in *.
      assert (Hin : In j blk) by (apply Hblk; eauto). subst a. destruct blk; [contradiction | discriminate].
    + intros Hnone. subst a. destruct blk as [|j r]; [reflexivity|]. exfalso.
      assert (Hj : In j (j :: r)) by now left. apply Hblk in Hj as [tj [Htj [Hp Hd]]].
      assert (j < next s) by (eapply ti_fresh; eauto).
      apply (Hnone j). exists tj. eexists. rewrite aget_ains_other by lia. rewrite aget_ains_same.
      repeat split; eauto.
Qed.
Print Assumptions add_timer_inv.
