(* Feasibility sketch (design round): generic BFS with a visited set modulo a decidable equivalence,
   closed-set completeness + soundness.  Mirrors Bfs::bfs / search_step: mark at discovery, check at dequeue. *)
From Coq Require Import List Arith Lia Bool.
Import ListNotations.

Section Search.
Variable St : Type.
Variable eqb : St -> St -> bool.
Variable succ : St -> list St.
Variable bad stop : St -> bool.

Definition eqv s t := eqb s t = true.
Hypothesis eqv_refl : forall s, eqv s s.
Hypothesis eqv_sym : forall s t, eqv s t -> eqv t s.
Hypothesis eqv_trans : forall s t u, eqv s t -> eqv t u -> eqv s u.
Hypothesis bad_compat : forall s t, eqv s t -> bad s = bad t.
Hypothesis stop_compat : forall s t, eqv s t -> stop s = stop t.
Hypothesis succ_compat : forall s t, eqv s t -> forall s', In s' (succ s) -> exists t', In t' (succ t) /\ eqv s' t'.

Inductive res := Done (checked : list St) | Bad (s : St) | OutOfFuel.
Definition mem (s : St) (v : list St) := existsb (eqb s) v.

Fixpoint add_new (ss v q : list St) : list St * list St :=
  match ss with
  | [] => (v, q)
  | s :: r => if mem s v then add_new r v q else add_new r (s :: v) (q ++ [s])
  end.

Fixpoint bfs (fuel : nat) (q v chk : list St) : res :=
  match fuel with
  | 0 => OutOfFuel
  | S f => match q with
           | [] => Done chk
           | s :: q' => if bad s then Bad s
                        else if stop s then bfs f q' v (s :: chk)
                        else let '(v', q'') := add_new (succ s) v q' in bfs f q'' v' (s :: chk)
           end
  end.

Variable init : St.
Inductive Reach : St -> Prop :=
| R0 : Reach init
| RS : forall s s', Reach s -> bad s = false -> stop s = false -> In s' (succ s) -> Reach s'.

Lemma mem_true s v : mem s v = true <-> exists x, In x v /\ eqv s x.
Proof. unfold mem. rewrite existsb_exists. reflexivity. Qed.

Lemma add_new_spec ss : forall v q v' q',
  add_new ss v q = (v', q') ->
  (forall x, In x v -> In x v') /\
  (forall x, In x q -> In x q') /\
  (forall x, In x v' -> In x v \/ In x ss) /\
  (forall x, In x q' -> In x q \/ (In x ss /\ In x v')) /\
  (forall x, In x v' -> In x v \/ In x q') /\
  (forall y, In y ss -> exists x, In x v' /\ eqv y x).
Proof.
  induction ss as [|s r IH]; cbn [add_new]; intros v q v' q' H.
  - injection H as <- <-. repeat split; auto. intros y [].
  - destruct (mem s v) eqn:E.
    + destruct (IH _ _ _ _ H) as (A & B & C & D & F & G). repeat split; auto.
      * intros x Hx. destruct (C x Hx); cbn; auto.
      * intros x Hx. destruct (D x Hx) as [|[? ?]]; cbn; auto.
      * intros y [<-|Hy]; [|auto]. apply mem_true in E as [x [Hx Hxe]]. exists x; auto.
    + destruct (IH _ _ _ _ H) as (A & B & C & D & F & G). repeat split.
      * intros x Hx. apply A. now right.
      * intros x Hx. apply B. apply in_or_app. now left.
      * intros x Hx. destruct (C x Hx) as [[<-|?]|?]; cbn; auto.
      * intros x Hx. destruct (D x Hx) as [Hq|[? ?]]; [|cbn; auto].
        apply in_app_or in Hq as [?|[<-|[]]]; auto. right. split; [now left|]. apply A. now left.
      * intros x Hx. destruct (F x Hx) as [[<-|?]|?]; auto. right. apply B. apply in_or_app. right. now left.
      * intros y [<-|Hy]; [|auto]. exists s. split; [apply A; now left | apply eqv_refl].
Qed.

Record Inv (q v chk : list St) : Prop := {
  i_reach : forall x, In x v -> Reach x;
  i_cover : forall x, In x v -> In x q \/ In x chk;
  i_q : forall x, In x q -> In x v;
  i_chk : forall c, In c chk -> In c v /\ bad c = false /\
            (stop c = true \/ forall y, In y (succ c) -> exists x, In x v /\ eqv y x);
  i_init : In init v }.

Lemma bfs_inv fuel : forall q v chk,
  Inv q v chk ->
  match bfs fuel q v chk with
  | Done chk' => exists v', Inv [] v' chk'
  | Bad s => Reach s /\ bad s = true
  | OutOfFuel => True
  end.
Proof.
  induction fuel as [|f IH]; intros q v chk I; cbn [bfs]; [exact Logic.I|].
  destruct q as [|s q'].
  - exists v. exact I.
  - destruct (bad s) eqn:Eb.
    + split; [|exact Eb]. apply (i_reach _ _ _ I), (i_q _ _ _ I). now left.
    + destruct (stop s) eqn:Es.
      * apply IH. split.
        -- exact (i_reach _ _ _ I).
        -- intros x Hx. destruct (i_cover _ _ _ I x Hx) as [[<-|?]|?]; cbn; auto.
        -- intros x Hx. apply (i_q _ _ _ I). now right.
        -- intros c [<-|Hc]; [|exact (i_chk _ _ _ I c Hc)].
           split; [apply (i_q _ _ _ I); now left|]. auto.
        -- exact (i_init _ _ _ I).
      * destruct (add_new (succ s) v q') as [v' q''] eqn:Ea.
        destruct (add_new_spec _ _ _ _ _ Ea) as (A & B & C & D & F & G).
        assert (Hs : In s v) by (apply (i_q _ _ _ I); now left).
        apply IH. split.
        -- intros x Hx. destruct (C x Hx) as [?|Hin]; [now apply (i_reach _ _ _ I)|].
           eapply RS; eauto. now apply (i_reach _ _ _ I).
        -- intros x Hx. destruct (F x Hx) as [Hv|?]; [|auto].
           destruct (i_cover _ _ _ I x Hv) as [[<-|?]|?]; cbn; auto.
        -- intros x Hx. destruct (D x Hx) as [?|[? ?]]; [|auto]. apply A, (i_q _ _ _ I). now right.
        -- intros c [<-|Hc].
           ++ split; [now apply A|]. split; [exact Eb|]. right. exact G.
           ++ destruct (i_chk _ _ _ I c Hc) as (H1 & H2 & H3). split; [now apply A|]. split; [exact H2|].
              destruct H3 as [?|H3]; [now left|]. right. intros y Hy. destruct (H3 y Hy) as [x [? ?]].
              exists x. split; [now apply A | assumption].
        -- apply A, (i_init _ _ _ I).
Qed.

Theorem bfs_correct fuel :
  match bfs fuel [init] [init] [] with
  | Done chk =>
      (forall c, In c chk -> Reach c /\ bad c = false) /\
      (forall s, Reach s -> exists c, In c chk /\ eqv s c /\ bad s = false)
  | Bad s => Reach s /\ bad s = true
  | OutOfFuel => True
  end.
Proof.
  assert (I0 : Inv [init] [init] []).
  { split; cbn; intros; intuition; subst; try constructor. }
  pose proof (bfs_inv fuel _ _ _ I0) as H.
  destruct (bfs fuel [init] [init] []) as [chk| |]; [|exact H|exact Logic.I].
  destruct H as [v' I]. split.
  - intros c Hc. destruct (i_chk _ _ _ I c Hc) as (H1 & H2 & _). split; [now apply (i_reach _ _ _ I)|exact H2].
  - assert (Hrep : forall s, Reach s -> exists c, In c chk /\ eqv s c).
    { induction 1 as [|s s' Hr IHr Hb Hst Hin].
      - destruct (i_cover _ _ _ I init (i_init _ _ _ I)) as [[]|Hc]. exists init. split; [exact Hc|apply eqv_refl].
      - destruct IHr as [c [Hc Hsc]]. destruct (i_chk _ _ _ I c Hc) as (_ & _ & [Hstop|Hsucc]).
        + rewrite <- (stop_compat _ _ Hsc) in Hstop. congruence.
        + destruct (succ_compat _ _ Hsc _ Hin) as [t' [Ht' He]].
          destruct (Hsucc t' Ht') as [x [Hx Hxe]].
          destruct (i_cover _ _ _ I x Hx) as [[]|Hxc]. exists x. split; [exact Hxc|].
          eapply eqv_trans; eauto. }
    intros s Hs. destruct (Hrep s Hs) as [c [Hc He]]. exists c. repeat split; auto.
    destruct (i_chk _ _ _ I c Hc) as (_ & H2 & _). now rewrite (bad_compat _ _ He).
Qed.
End Search.
Print Assumptions bfs_correct.
