(* Feasibility sketch (design round): generic DFS (Dfs::dfs + search_step), visited set threaded, fuelled. *)
From Coq Require Import List Arith Lia Bool.
Import ListNotations.

Section SearchD.
Variable St : Type.
Variable eqb : St -> St -> bool.
Variable succ : St -> list St.
Variable bad stop : St -> bool.
Definition eqv s t := eqb s t = true.
Hypothesis eqv_refl : forall s, eqv s s.
Hypothesis eqv_trans : forall s t u, eqv s t -> eqv t u -> eqv s u.
Hypothesis bad_compat : forall s t, eqv s t -> bad s = bad t.
Hypothesis stop_compat : forall s t, eqv s t -> stop s = stop t.
Hypothesis succ_compat : forall s t, eqv s t -> forall s', In s' (succ s) -> exists t', In t' (succ t) /\ eqv s' t'.

Inductive resd := DoneD (v chk : list St) | BadD (s : St) | OutOfFuelD.
Definition mem (s : St) (v : list St) := existsb (eqb s) v.

Fixpoint dfs (fuel : nat) (s : St) (v chk : list St) : resd :=
  match fuel with
  | 0 => OutOfFuelD
  | S f =>
    if bad s then BadD s
    else if stop s then DoneD v (s :: chk)
    else (fix go (ss : list St) (v chk : list St) : resd :=
            match ss with
            | [] => DoneD v chk
            | s' :: r => if mem s' v then go r v chk
                         else match dfs f s' (s' :: v) chk with
                              | DoneD v' chk' => go r v' chk'
                              | o => o
                              end
            end) (succ s) v (s :: chk)
  end.

Variable init : St.
Inductive Reach : St -> Prop :=
| R0 : Reach init
| RS : forall s s', Reach s -> bad s = false -> stop s = false -> In s' (succ s) -> Reach s'.

Lemma mem_true s v : mem s v = true <-> exists x, In x v /\ eqv s x.
Proof. unfold mem. rewrite existsb_exists. reflexivity. Qed.

Definition closed (c : St) (v : list St) :=
  stop c = true \/ forall y, In y (succ c) -> exists x, In x v /\ eqv y x.
Lemma closed_mono c v v' : (forall x, In x v -> In x v') -> closed c v -> closed c v'.
Proof. intros Hsub [?|H]; [now left|right]. intros y Hy. destruct (H y Hy) as [x [? ?]]. eauto. Qed.

(* what one call adds *)
Record Post (v chk v' chk' : list St) : Prop := {
  p_v : forall x, In x v -> In x v';
  p_chk : forall x, In x chk -> In x chk';
  p_reach : (forall x, In x v -> Reach x) -> forall x, In x v' -> Reach x;
  p_newv : forall x, In x v' -> In x v \/ In x chk';
  p_newc : forall c, In c chk' -> In c chk \/ (In c v' /\ bad c = false /\ closed c v') }.

Lemma Post_refl v chk : Post v chk v chk.
Proof. split; auto. Qed.
Lemma Post_trans v chk v1 chk1 v2 chk2 : Post v chk v1 chk1 -> Post v1 chk1 v2 chk2 -> Post v chk v2 chk2.
Proof.
  intros A B. split.
  - intros x Hx. apply (p_v _ _ _ _ B), (p_v _ _ _ _ A), Hx.
  - intros x Hx. apply (p_chk _ _ _ _ B), (p_chk _ _ _ _ A), Hx.
  - intros Hr. apply (p_reach _ _ _ _ B), (p_reach _ _ _ _ A), Hr.
  - intros x Hx. destruct (p_newv _ _ _ _ B x Hx) as [H1|?]; [|auto].
    destruct (p_newv _ _ _ _ A x H1) as [?|H2]; [auto|]. right. apply (p_chk _ _ _ _ B), H2.
  - intros c Hc. destruct (p_newc _ _ _ _ B c Hc) as [H1|?]; [|auto].
    destruct (p_newc _ _ _ _ A c H1) as [?|(H2 & H3 & H4)]; [auto|]. right.
    split; [apply (p_v _ _ _ _ B), H2|]. split; [exact H3|]. eapply closed_mono; [|exact H4]. apply (p_v _ _ _ _ B).
Qed.

Lemma dfs_post fuel : forall s v chk,
  In s v -> Reach s ->
  match dfs fuel s v chk with
  | DoneD v' chk' => Post v chk v' chk' /\ In s chk'
  | BadD b => ((forall x, In x v -> Reach x) -> Reach b) /\ bad b = true
  | OutOfFuelD => True
  end.
Proof.
  induction fuel as [|f IH]; intros s v chk Hsv Hrs; cbn [dfs]; [exact I|].
  destruct (bad s) eqn:Eb; [split; auto|].
  destruct (stop s) eqn:Es.
  { cbn beta iota. split; [|left; reflexivity]. split.
    - auto.
    - intros x Hx; now right.
    - auto.
    - intros x Hx; now left.
    - intros c [<-|Hc]; [right|now left]. split; [exact Hsv|]. split; [exact Eb|now left]. }
  (* the loop over successors: generalise over the prefix already handled *)
  set (go := fix go (ss : list St) (v chk : list St) : resd :=
            match ss with
            | [] => DoneD v chk
            | s' :: r => if mem s' v then go r v chk
                         else match dfs f s' (s' :: v) chk with
                              | DoneD v' chk' => go r v' chk'
                              | o => o
                              end
            end).
  assert (Hgo : forall ss v1 chk1,
            (forall y, In y ss -> In y (succ s)) ->
            match go ss v1 chk1 with
            | DoneD v' chk' => Post v1 chk1 v' chk' /\ (forall y, In y ss -> exists x, In x v' /\ eqv y x)
            | BadD b => ((forall x, In x v1 -> Reach x) -> Reach b) /\ bad b = true
            | OutOfFuelD => True
            end).
  { induction ss as [|s' r IHr]; intros v1 chk1 Hss; cbn [go].
    - split; [apply Post_refl|intros y []].
    - destruct (mem s' v1) eqn:Em.
      + specialize (IHr v1 chk1 (fun y Hy => Hss y (or_intror Hy))).
        destruct (go r v1 chk1) as [v' chk'| |]; auto.
        destruct IHr as [P Hrep]. split; [exact P|].
        intros y [<-|Hy]; [|auto]. apply mem_true in Em as [x [Hx He]]. exists x. split; [apply (p_v _ _ _ _ P), Hx|exact He].
      + assert (Hrs' : Reach s') by (eapply RS; eauto; apply Hss; now left).
        pose proof (IH s' (s' :: v1) chk1 (or_introl eq_refl) Hrs') as Hd.
        destruct (dfs f s' (s' :: v1) chk1) as [v2 chk2|b|]; [| |exact I].
        * destruct Hd as [P1 Hin1].
          specialize (IHr v2 chk2 (fun y Hy => Hss y (or_intror Hy))).
          destruct (go r v2 chk2) as [v' chk'|b|]; [| |exact I].
          -- destruct IHr as [P2 Hrep].
             assert (P1' : Post v1 chk1 v2 chk2).
             { split.
               - intros x Hx. apply (p_v _ _ _ _ P1). now right.
               - exact (p_chk _ _ _ _ P1).
               - intros Hr. apply (p_reach _ _ _ _ P1). intros x [<-|Hx]; auto.
               - intros x Hx. destruct (p_newv _ _ _ _ P1 x Hx) as [[<-|?]|?]; auto.
               - exact (p_newc _ _ _ _ P1). }
             split; [eapply Post_trans; eauto|].
             intros y [<-|Hy]; [|auto]. exists s'. split; [|apply eqv_refl].
             apply (p_v _ _ _ _ P2), (p_v _ _ _ _ P1). now left.
          -- destruct IHr as [Hb1 Hb2]. split; [|exact Hb2]. intros Hr. apply Hb1.
             apply (p_reach _ _ _ _ P1). intros x [<-|Hx]; auto.
        * destruct Hd as [Hb1 Hb2]. split; [|exact Hb2]. intros Hr. apply Hb1. intros x [<-|Hx]; auto. }
  specialize (Hgo (succ s) v (s :: chk) (fun y Hy => Hy)).
  fold go. destruct (go (succ s) v (s :: chk)) as [v' chk'|b|]; [| exact Hgo | exact I].
  destruct Hgo as [P Hrep]. split; [|apply (p_chk _ _ _ _ P); now left].
  split.
  - exact (p_v _ _ _ _ P).
  - intros x Hx. apply (p_chk _ _ _ _ P). now right.
  - exact (p_reach _ _ _ _ P).
  - exact (p_newv _ _ _ _ P).
  - intros c Hc. destruct (p_newc _ _ _ _ P c Hc) as [[<-|?]|?]; auto.
    right. split; [apply (p_v _ _ _ _ P), Hsv|]. split; [exact Eb|]. right. exact Hrep.
Qed.

Theorem dfs_correct fuel :
  match dfs fuel init [init] [] with
  | DoneD _ chk =>
      (forall c, In c chk -> Reach c /\ bad c = false) /\
      (forall s, Reach s -> exists c, In c chk /\ eqv s c /\ bad s = false)
  | BadD b => Reach b /\ bad b = true
  | OutOfFuelD => True
  end.
Proof.
  pose proof (dfs_post fuel init [init] [] (or_introl eq_refl) R0) as H.
  destruct (dfs fuel init [init] []) as [v chk|b|]; [| |exact I].
  - destruct H as [P Hin].
    assert (Hr : forall x, In x v -> Reach x).
    { apply (p_reach _ _ _ _ P). intros x [<-|[]]. constructor. }
    assert (Hc : forall c, In c chk -> In c v /\ bad c = false /\ closed c v).
    { intros c Hc. destruct (p_newc _ _ _ _ P c Hc) as [[]|?]; auto. }
    split.
    + intros c Hcc. destruct (Hc c Hcc) as (H1 & H2 & _). auto.
    + assert (Hrep : forall s, Reach s -> exists c, In c chk /\ eqv s c).
      { induction 1 as [|s s' Hrs IHr Hb Hst Hin'].
        - exists init. split; [exact Hin|apply eqv_refl].
        - destruct IHr as [c [Hcc Hsc]]. destruct (Hc c Hcc) as (_ & _ & [Hstop|Hsucc]).
          + rewrite <- (stop_compat _ _ Hsc) in Hstop. congruence.
          + destruct (succ_compat _ _ Hsc _ Hin') as [t' [Ht' He]].
            destruct (Hsucc t' Ht') as [x [Hx Hxe]].
            destruct (p_newv _ _ _ _ P x Hx) as [[<-|[]]|Hxc].
            * exists init. split; [exact Hin|]. eapply eqv_trans; eauto.
            * exists x. split; [exact Hxc|]. eapply eqv_trans; eauto. }
      intros s Hs. destruct (Hrep s Hs) as [c [Hcc He]]. exists c. repeat split; auto.
      destruct (Hc c Hcc) as (_ & H2 & _). now rewrite (bad_compat _ _ He).
  - destruct H as [H1 H2]. split; [|exact H2]. apply H1. intros x [<-|[]]. constructor.
Qed.
End SearchD.
Print Assumptions dfs_correct.
