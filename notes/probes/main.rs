use std::collections::HashSet;
use std::rc::Rc;

use anysystem::logger::LogEntry;
use anysystem::mc::strategies::{Bfs, Dfs};
use anysystem::mc::{EventOrderingMode, ExecutionMode, McState, ModelChecker, StrategyConfig, VisitedStates};
use anysystem::{Context, Message, Process, ProcessState, System};
use sugars::boxed;

type H = Rc<dyn Fn(&mut Vec<String>, &str, &str, &mut Context)>;

#[derive(Clone)]
struct P {
    hist: Vec<String>,
    h: H,
}
impl P {
    fn new(h: H) -> Box<Self> {
        Box::new(P { hist: vec![], h })
    }
}
impl Process for P {
    fn on_message(&mut self, msg: Message, from: String, ctx: &mut Context) -> Result<(), String> {
        self.hist.push(format!("M:{}:{}:{}", from, msg.tip, msg.data));
        (self.h.clone())(&mut self.hist, "M", &msg.tip, ctx);
        Ok(())
    }
    fn on_local_message(&mut self, msg: Message, ctx: &mut Context) -> Result<(), String> {
        self.hist.push(format!("L:{}:{}", msg.tip, msg.data));
        (self.h.clone())(&mut self.hist, "L", &msg.tip, ctx);
        Ok(())
    }
    fn on_timer(&mut self, timer: String, ctx: &mut Context) -> Result<(), String> {
        self.hist.push(format!("T:{}", timer));
        (self.h.clone())(&mut self.hist, "T", &timer, ctx);
        Ok(())
    }
    fn state(&self) -> Result<Rc<dyn ProcessState>, String> {
        Ok(Rc::new(self.hist.clone()))
    }
    fn set_state(&mut self, state: Rc<dyn ProcessState>) -> Result<(), String> {
        self.hist = state.downcast_ref::<Vec<String>>().unwrap().clone();
        Ok(())
    }
}

fn hist_of(state: &McState, node: &str, proc: &str) -> String {
    format!("{:?}", state.node_states[node].proc_states[proc].proc_state)
}

fn p1_timer_override() {
    println!("== P1: MC set_timer override (C07/C02)");
    let mut sys = System::new(1);
    sys.add_node("n");
    sys.add_process(
        "p",
        P::new(Rc::new(|_h, k, _t, ctx| {
            if k == "L" {
                ctx.set_timer("t", 1.0);
                ctx.set_timer("t", 2.0);
            }
        })),
        "n",
    );
    // simulation
    let mut mc = ModelChecker::new(&sys);
    sys.send_local_message("p", Message::new("GO", "x"));
    sys.step_until_no_events();
    let fired = sys
        .logger()
        .trace()
        .iter()
        .filter(|e| matches!(e, LogEntry::TimerFired { .. }))
        .count();
    println!("sim: TimerFired count = {}", fired);
    let maxf = Rc::new(std::cell::RefCell::new(0usize));
    let maxf2 = maxf.clone();
    let cfg = StrategyConfig::default()
        .goal(boxed!(|s: &McState| if s.events.is_empty() { Some("done".into()) } else { None }))
        .invariant(boxed!(move |s: &McState| {
            let c = s.trace.iter().filter(|e| matches!(e, LogEntry::McTimerFired { .. })).count();
            let mut m = maxf2.borrow_mut();
            if c > *m {
                *m = c;
            }
            Ok(())
        }));
    let r = mc.run_with_change::<Bfs>(cfg, |s| s.send_local_message("n", "p", Message::new("GO", "x")));
    println!("mc: ok={} max McTimerFired on a path = {}", r.is_ok(), maxf.borrow());
}

fn p2_crash_order() {
    println!("== P2: MC crash_node trace order with 2 procs on node (C01)");
    let mut seen = HashSet::new();
    for _ in 0..20 {
        let mut sys = System::new(1);
        sys.add_node("a");
        sys.add_node("b");
        sys.add_process(
            "src",
            P::new(Rc::new(|_h, k, _t, ctx| {
                if k == "L" {
                    ctx.send(Message::new("X", "1"), "q1".into());
                    ctx.send(Message::new("X", "2"), "q2".into());
                    ctx.send(Message::new("X", "3"), "q3".into());
                    ctx.send(Message::new("X", "4"), "q4".into());
                }
            })),
            "a",
        );
        for q in ["q1", "q2", "q3", "q4"] {
            sys.add_process(q, P::new(Rc::new(|_h, _k, _t, _ctx| {})), "b");
        }
        sys.send_local_message("src", Message::new("GO", "x"));
        let mut mc = ModelChecker::new(&sys);
        let cfg = StrategyConfig::default()
            .goal(boxed!(|s: &McState| if s.events.is_empty() { Some("done".into()) } else { None }))
            .invariant(boxed!(|_s: &McState| Err("stop".to_string())));
        let r = mc.run_with_change::<Bfs>(cfg, |s| s.crash_node("b"));
        let tr: Vec<String> = r
            .unwrap_err()
            .trace()
            .iter()
            .filter(|e| matches!(e, LogEntry::McMessageDropped { .. }))
            .map(|e| format!("{:?}", e))
            .collect();
        seen.insert(tr.join("|"));
    }
    println!("distinct drop-orderings over 20 identical builds in one OS process: {}", seen.len());
}

fn p3_snapshot_timer_delay() {
    println!("== P3: snapshot timer delay 0 blocks later timers (C04/C15)");
    let mk = || {
        let mut sys = System::new(1);
        sys.add_node("n");
        sys.add_process(
            "p",
            P::new(Rc::new(|_h, k, t, ctx| {
                if k == "L" && t == "A" {
                    ctx.set_timer("a", 10.0);
                }
                if k == "L" && t == "B" {
                    ctx.set_timer("b", 1.0);
                }
            })),
            "n",
        );
        sys
    };
    // simulator: A at t=0, then B, run
    let mut sys = mk();
    sys.send_local_message("p", Message::new("A", ""));
    let mut mc = ModelChecker::new(&sys);
    sys.send_local_message("p", Message::new("B", ""));
    sys.step_until_no_events();
    println!(
        "sim history: {:?}",
        sys.get_node("n").unwrap().get_process("p").unwrap().state().unwrap()
    );
    let finals = Rc::new(std::cell::RefCell::new(HashSet::new()));
    let f2 = finals.clone();
    let cfg = StrategyConfig::default()
        .goal(boxed!(move |s: &McState| if s.events.is_empty() {
            f2.borrow_mut().insert(hist_of(s, "n", "p"));
            Some("done".into())
        } else {
            None
        }))
        .visited_states(VisitedStates::Disabled);
    let r = mc.run_with_change::<Dfs>(cfg, |s| s.send_local_message("n", "p", Message::new("B", "")));
    println!("mc ok={} final histories: {:?}", r.is_ok(), finals.borrow());
}

fn p4_snapshot_crashed() {
    println!("== P4: snapshot of crashed node (C15)");
    let mut sys = System::new(1);
    sys.add_node("a");
    sys.add_node("b");
    sys.add_process(
        "s",
        P::new(Rc::new(|_h, k, _t, ctx| {
            if k == "L" {
                ctx.send(Message::new("X", "1"), "r".into());
            }
        })),
        "a",
    );
    sys.add_process("r", P::new(Rc::new(|_h, _k, _t, _ctx| {})), "b");
    sys.crash_node("b");
    sys.send_local_message("s", Message::new("GO", ""));
    let mut mc = ModelChecker::new(&sys);
    sys.step_until_no_events();
    println!(
        "sim: r history = {:?}",
        sys.get_node("b").unwrap().get_process("r").unwrap().state().unwrap()
    );
    let delivered = Rc::new(std::cell::RefCell::new(false));
    let d2 = delivered.clone();
    let cfg = StrategyConfig::default()
        .goal(boxed!(|s: &McState| if s.events.is_empty() { Some("done".into()) } else { None }))
        .invariant(boxed!(move |s: &McState| {
            if hist_of(s, "b", "r").contains("M:") {
                *d2.borrow_mut() = true;
            }
            Ok(())
        }));
    let r = mc.run::<Bfs>(cfg);
    println!("mc ok={} delivered-to-crashed-node={}", r.is_ok(), delivered.borrow());
}

fn build_pingish() -> System {
    let mut sys = System::new(1);
    sys.add_node("a");
    sys.add_node("b");
    sys.add_process(
        "s",
        P::new(Rc::new(|_h, k, t, ctx| {
            if k == "L" {
                ctx.send(Message::new(t, "1"), "r".into());
            }
        })),
        "a",
    );
    sys.add_process(
        "r",
        P::new(Rc::new(|_h, k, _t, ctx| {
            if k == "M" {
                ctx.send_local(Message::new("GOT", "1"));
            }
        })),
        "b",
    );
    sys
}

fn p5_status_double_count() {
    println!("== P5: statuses over several start states (C16)");
    let sys = build_pingish();
    let mut mc = ModelChecker::new(&sys);
    // stage 1: two local messages -> collect the states after each delivery order (depth 1)
    let cfg = StrategyConfig::default()
        .goal(boxed!(|s: &McState| if s.depth >= 1 { Some("g1".into()) } else { None }))
        .collect(boxed!(|s: &McState| s.depth == 1))
        .execution_mode(ExecutionMode::Debug);
    let st = mc
        .run_with_change::<Bfs>(cfg, |s| {
            s.send_local_message("a", "s", Message::new("M1", ""));
            s.send_local_message("a", "s", Message::new("M2", ""));
        })
        .unwrap();
    println!("stage1 statuses {:?} collected {}", st.statuses, st.collected_states.len());
    let goal_hits = Rc::new(std::cell::RefCell::new(0u32));
    let g2 = goal_hits.clone();
    let cfg2 = StrategyConfig::default()
        .goal(boxed!(move |s: &McState| if s.events.is_empty() {
            *g2.borrow_mut() += 1;
            Some("final".into())
        } else {
            None
        }))
        .execution_mode(ExecutionMode::Debug)
        .visited_states(VisitedStates::Disabled);
    let st2 = mc.run_from_states::<Bfs>(cfg2, st.collected_states).unwrap();
    println!("stage2 statuses {:?} ; goal predicate returned Some {} times", st2.statuses, goal_hits.borrow());
}

fn p6_rollback() {
    println!("== P6: rollback after run_from_states / ordering-mode leak (C09/C16)");
    let sys = build_pingish();
    let mut mc = ModelChecker::new(&sys);
    let count_run = |mc: &mut ModelChecker| {
        let n = Rc::new(std::cell::RefCell::new(Vec::new()));
        let n2 = n.clone();
        let cfg = StrategyConfig::default()
            .goal(boxed!(|s: &McState| if s.events.is_empty() { Some("f".into()) } else { None }))
            .invariant(boxed!(move |s: &McState| {
                n2.borrow_mut().push((s.depth, s.trace.len()));
                Ok(())
            }))
            .collect(boxed!(|s: &McState| s.depth == 1));
        let r = mc.run_with_change::<Bfs>(cfg, |s| {
            s.send_local_message("a", "s", Message::new("M1", ""));
        });
        let v = n.borrow().clone();
        (r, v)
    };
    let (r1, v1) = count_run(&mut mc);
    let st = r1.unwrap();
    println!("run#1 states(depth,tracelen) {:?}", v1);
    let cfg2 = StrategyConfig::default().goal(boxed!(|s: &McState| if s.events.is_empty() {
        Some("f".into())
    } else {
        None
    }));
    let _ = mc.run_from_states::<Bfs>(cfg2, st.collected_states);
    let (_r3, v3) = count_run(&mut mc);
    println!("run#3 (same as #1, after run_from_states) {:?}", v3);

    // ordering mode leak
    let sys = {
        let mut sys = System::new(1);
        sys.add_node("a");
        sys.add_node("b");
        sys.add_process(
            "s",
            P::new(Rc::new(|_h, k, _t, ctx| {
                if k == "L" {
                    ctx.send(Message::new("X", "1"), "r".into());
                }
            })),
            "a",
        );
        sys.add_process(
            "r",
            P::new(Rc::new(|_h, k, _t, ctx| {
                if k == "L" {
                    ctx.set_timer("t", 1.0);
                }
            })),
            "b",
        );
        sys
    };
    let mut mc = ModelChecker::new(&sys);
    let run = |mc: &mut ModelChecker, mf: bool| {
        let n = Rc::new(std::cell::RefCell::new(0));
        let n2 = n.clone();
        let cfg = StrategyConfig::default()
            .goal(boxed!(|s: &McState| if s.events.is_empty() { Some("f".into()) } else { None }))
            .invariant(boxed!(move |_s: &McState| {
                *n2.borrow_mut() += 1;
                Ok(())
            }))
            .visited_states(VisitedStates::Disabled);
        let _ = mc.run_with_change::<Bfs>(cfg, move |s| {
            if mf {
                s.set_event_ordering_mode(EventOrderingMode::MessagesFirst);
            }
            s.send_local_message("a", "s", Message::new("GO", ""));
            s.send_local_message("b", "r", Message::new("GO", ""));
        });
        let v = *n.borrow();
        v
    };
    let a = run(&mut mc, false);
    let b = run(&mut mc, true);
    let c = run(&mut mc, false);
    println!("states visited: normal={} messages_first={} normal-again={}", a, b, c);
}

fn p7_crash_double_log() {
    println!("== P7: sim crash logs cancelled messages twice (C17)");
    let mut sys = System::new(1);
    sys.add_node("a");
    sys.add_node("b");
    sys.network().set_delay(10.0);
    sys.add_process(
        "s",
        P::new(Rc::new(|_h, k, _t, ctx| {
            if k == "L" {
                ctx.send(Message::new("X", "1"), "r".into());
            }
        })),
        "a",
    );
    sys.add_process("r", P::new(Rc::new(|_h, _k, _t, _ctx| {})), "b");
    sys.send_local_message("s", Message::new("GO", ""));
    sys.crash_node("a");
    sys.recover_node("a");
    sys.crash_node("a");
    let drops: Vec<String> = sys
        .logger()
        .trace()
        .iter()
        .filter(|e| matches!(e, LogEntry::MessageDropped { .. }))
        .map(|e| format!("{:?}", e))
        .collect();
    println!("MessageDropped entries for the single send: {}", drops.len());
    // variant: receiver crashes first (silently cancels), then sender crashes
    let mut sys = System::new(1);
    sys.add_node("a");
    sys.add_node("b");
    sys.network().set_delay(10.0);
    sys.add_process(
        "s",
        P::new(Rc::new(|_h, k, _t, ctx| {
            if k == "L" {
                ctx.send(Message::new("X", "1"), "r".into());
            }
        })),
        "a",
    );
    sys.add_process("r", P::new(Rc::new(|_h, _k, _t, _ctx| {})), "b");
    sys.send_local_message("s", Message::new("GO", ""));
    sys.crash_node("b");
    let d0 = sys.logger().trace().iter().filter(|e| matches!(e, LogEntry::MessageDropped { .. })).count();
    sys.crash_node("a");
    let d1 = sys.logger().trace().iter().filter(|e| matches!(e, LogEntry::MessageDropped { .. })).count();
    println!("receiver-crash logs {} drops; then sender-crash total {}", d0, d1);
}

fn p8_stale_id() {
    println!("== P8: stale offered id after re-insert + crash in stage 2 (C20)");
    let mut sys = System::new(1);
    sys.add_node("a");
    sys.add_node("b");
    sys.add_process(
        "s",
        P::new(Rc::new(|_h, k, _t, ctx| {
            if k == "L" {
                ctx.send(Message::new("X", "1"), "r".into());
                ctx.send(Message::new("X", "1"), "r".into());
            }
        })),
        "a",
    );
    sys.add_process("r", P::new(Rc::new(|_h, _k, _t, _ctx| {})), "b");
    sys.add_node("c");
    sys.add_process("z", P::new(Rc::new(|_h, _k, _t, _ctx| {})), "c");
    let mut mc = ModelChecker::new(&sys);
    let cfg = StrategyConfig::default()
        .goal(boxed!(|s: &McState| if s.depth >= 1 { Some("g".into()) } else { None }))
        .collect(boxed!(|s: &McState| s.depth == 1
            && s.trace.iter().any(|e| matches!(e, LogEntry::McMessageDuplicated { .. }))));
    let st = mc
        .run_with_change::<Bfs>(cfg, |s| {
            s.network().set_dupl_rate(0.5);
            s.send_local_message("a", "s", Message::new("GO", ""));
        })
        .unwrap();
    println!("collected {}", st.collected_states.len());
    let res = std::panic::catch_unwind(std::panic::AssertUnwindSafe(|| {
        let cfg2 = StrategyConfig::default().goal(boxed!(|s: &McState| if s.events.is_empty() {
            Some("f".into())
        } else {
            None
        }));
        mc.run_from_states_with_change::<Bfs>(cfg2, st.collected_states, |s| {
            s.crash_node("b");
        })
    }));
    match res {
        Ok(r) => println!("stage 2 returned ok={}", r.is_ok()),
        Err(_) => println!("stage 2 PANICKED"),
    }
}

fn p9_start_state_order() {
    println!("== P9: order of equal-depth start states (C01)");
    let mut seen = HashSet::new();
    for _ in 0..20 {
        let sys = build_pingish();
        let mut mc = ModelChecker::new(&sys);
        let cfg = StrategyConfig::default()
            .goal(boxed!(|s: &McState| if s.depth >= 1 { Some("g1".into()) } else { None }))
            .collect(boxed!(|s: &McState| s.depth == 1));
        let st = mc
            .run_with_change::<Bfs>(cfg, |s| {
                s.send_local_message("a", "s", Message::new("M1", ""));
                s.send_local_message("a", "s", Message::new("M2", ""));
                s.send_local_message("a", "s", Message::new("M3", ""));
            })
            .unwrap();
        let order = Rc::new(std::cell::RefCell::new(Vec::new()));
        let o2 = order.clone();
        let cfg2 = StrategyConfig::default()
            .goal(boxed!(|s: &McState| if s.events.is_empty() { Some("f".into()) } else { None }))
            .invariant(boxed!(move |s: &McState| {
                o2.borrow_mut().push(hist_of(s, "b", "r"));
                Ok(())
            }));
        let _ = mc.run_from_states::<Bfs>(cfg2, st.collected_states);
        seen.insert(order.borrow().join("|"));
    }
    println!("distinct predicate-evaluation orders over 20 identical runs: {}", seen.len());
}

fn p11_sim_crash() {
    println!("== P11: sim crash/recover with message sent to crashed node (C08)");
    let mut sys = System::new(1);
    sys.add_node("a");
    sys.add_node("b");
    sys.network().set_delay(5.0);
    sys.add_process(
        "s",
        P::new(Rc::new(|_h, k, _t, ctx| {
            if k == "L" {
                ctx.send(Message::new("X", "1"), "r".into());
            }
        })),
        "a",
    );
    sys.add_process("r", P::new(Rc::new(|_h, _k, _t, _ctx| {})), "b");
    sys.crash_node("b");
    sys.send_local_message("s", Message::new("GO", "")); // sent while b is crashed
    sys.step_for_duration(1.0);
    sys.recover_node("b");
    sys.add_process("r", P::new(Rc::new(|_h, _k, _t, _ctx| {})), "b");
    sys.step_until_no_events();
    println!(
        "new r history after recovery: {:?} (message was sent while b was down)",
        sys.get_node("b").unwrap().get_process("r").unwrap().state().unwrap()
    );
}

fn p10_depth_current_run() {
    println!("== P10: invariants::state_depth_current_run (C19)");
    use anysystem::mc::predicates::invariants;
    let sys = build_pingish();
    let mut mc = ModelChecker::new(&sys);
    for d in 0..6u64 {
        let cfg = StrategyConfig::default()
            .goal(boxed!(|s: &McState| if s.events.is_empty() { Some("f".into()) } else { None }))
            .invariant(invariants::state_depth_current_run(d));
        let r = mc.run_with_change::<Bfs>(cfg, |s| s.send_local_message("a", "s", Message::new("M1", "")));
        println!("limit {} -> ok={} (max real depth of this system in the run is 1)", d, r.is_ok());
    }
}

fn p13_corrupt_behind_identical() {
    println!("== P13: corruptible copy blocked behind identical non-corruptible one (C04)");
    let mut sys = System::new(1);
    sys.add_node("a");
    sys.add_node("b");
    sys.add_process(
        "s",
        P::new(Rc::new(|_h, k, _t, ctx| {
            if k == "L" {
                ctx.send(Message::new("X", "{\"k\": \"v\"}"), "r".into());
            }
        })),
        "a",
    );
    sys.add_process("r", P::new(Rc::new(|_h, _k, _t, _ctx| {})), "b");
    sys.network().set_delay(10.0);
    sys.send_local_message("s", Message::new("GO", ""));
    sys.network().set_delay(1.0);
    sys.network().set_corrupt_rate(1.0);
    let mut mc = ModelChecker::new(&sys);
    sys.send_local_message("s", Message::new("GO", ""));
    sys.step_until_no_events();
    println!(
        "sim: r history = {:?}",
        sys.get_node("b").unwrap().get_process("r").unwrap().state().unwrap()
    );
    let finals = Rc::new(std::cell::RefCell::new(HashSet::new()));
    let f2 = finals.clone();
    let cfg = StrategyConfig::default()
        .goal(boxed!(move |s: &McState| if s.events.is_empty() {
            f2.borrow_mut().insert(hist_of(s, "b", "r"));
            Some("done".into())
        } else {
            None
        }))
        .visited_states(VisitedStates::Disabled);
    let r = mc.run_with_change::<Dfs>(cfg, |s| s.send_local_message("a", "s", Message::new("GO", "")));
    println!("mc ok={} final r histories:", r.is_ok());
    for h in finals.borrow().iter() { println!("   {}", h); }
}

fn p14_clock_dependence() {
    println!("== P14: equal states at different depths + clock-reading program (C11)");
    let mk = || {
        let mut sys = System::new(1);
        sys.add_node("a");
        sys.add_node("b");
        sys.add_process(
            "s",
            P::new(Rc::new(|_h, k, _t, ctx| {
                if k == "L" {
                    ctx.send(Message::new("X", "1"), "r".into());
                }
            })),
            "a",
        );
        sys.add_process(
            "r",
            P::new(Rc::new(|_h, k, _t, ctx| {
                if k == "M" {
                    ctx.set_timer("t", 1.0);
                }
                if k == "T" {
                    ctx.send_local(Message::new("NOW", &format!("{}", ctx.time())));
                }
            })),
            "b",
        );
        sys
    };
    for mode in ["full", "disabled"] {
        let sys = mk();
        let mut mc = ModelChecker::new(&sys);
        let outs = Rc::new(std::cell::RefCell::new(std::collections::BTreeSet::new()));
        let o2 = outs.clone();
        let cfg = StrategyConfig::default()
            .goal(boxed!(|s: &McState| if s.events.is_empty() { Some("f".into()) } else { None }))
            .invariant(boxed!(move |s: &McState| {
                o2.borrow_mut().insert(format!("{:?}", s.node_states["b"].proc_states["r"].local_outbox));
                Ok(())
            }))
            .visited_states(if mode == "full" { VisitedStates::Full(HashSet::new()) } else { VisitedStates::Disabled });
        let r = mc.run_with_change::<Bfs>(cfg, |s| {
            s.network().set_corrupt_rate(0.5);
            s.send_local_message("a", "s", Message::new("GO", ""));
        });
        println!("{}: ok={} distinct outboxes of r seen by invariant: {:?}", mode, r.is_ok(), outs.borrow());
    }
}

fn main() {
    if std::env::args().any(|a| a == "p14") { p14_clock_dependence(); }
    if std::env::args().any(|a| a == "p13") { p13_corrupt_behind_identical(); }
    if std::env::args().any(|a| a == "p10") { p10_depth_current_run(); }
    let which: Vec<String> = std::env::args().skip(1).collect();
    let all = which.is_empty();
    let want = |s: &str| all || which.iter().any(|w| w == s);
    if want("p1") { p1_timer_override(); }
    if want("p2") { p2_crash_order(); }
    if want("p3") { p3_snapshot_timer_delay(); }
    if want("p4") { p4_snapshot_crashed(); }
    if want("p5") { p5_status_double_count(); }
    if want("p6") { p6_rollback(); }
    if want("p7") { p7_crash_double_log(); }
    if want("p8") { p8_stale_id(); }
    if want("p9") { p9_start_state_order(); }
    if want("p11") { p11_sim_crash(); }
}
