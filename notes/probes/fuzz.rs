use std::cell::RefCell;
use std::collections::{BTreeSet, HashSet};
use std::rc::Rc;

use anysystem::logger::LogEntry;
use anysystem::mc::strategies::{Bfs, Dfs};
use anysystem::mc::{McState, ModelChecker, StrategyConfig, VisitedStates};
use anysystem::{Context, Message, Process, ProcessState, System};
use rand::{Rng, SeedableRng};
use rand_pcg::Pcg64;
use sugars::boxed;

#[derive(Clone, Debug)]
enum Act {
    Send(String, usize),
    Local(usize),
    Set(String, f64),
    SetOnce(String, f64),
    Cancel(String),
}

const MSGS: [&str; 3] = ["1", "{\"k\": \"v\"}", "{\"a\": \"b\", \"n\": 3}"];

#[derive(Clone)]
struct Rnd {
    idx: usize,
    cap: usize,
    hist: Vec<String>,
    table: Rc<Vec<Vec<Act>>>,
    record_time: bool,
}

impl Rnd {
    fn act(&mut self, key: &str, ctx: &mut Context) {
        if self.record_time {
            self.hist.push(format!("{}@{}", key, ctx.time()));
        } else {
            self.hist.push(key.to_string());
        }
        if self.idx >= self.cap {
            return;
        }
        let mut h: usize = self.idx * 31;
        for b in key.bytes() {
            h = h.wrapping_mul(131).wrapping_add(b as usize);
        }
        let acts = self.table[h % self.table.len()].clone();
        self.idx += 1;
        for a in acts {
            match a {
                Act::Send(d, m) => ctx.send(Message::new("X", MSGS[m]), d),
                Act::Local(m) => ctx.send_local(Message::new("L", MSGS[m])),
                Act::Set(n, d) => ctx.set_timer(&n, d),
                Act::SetOnce(n, d) => ctx.set_timer_once(&n, d),
                Act::Cancel(n) => ctx.cancel_timer(&n),
            }
        }
    }
}

impl Process for Rnd {
    fn on_message(&mut self, msg: Message, from: String, ctx: &mut Context) -> Result<(), String> {
        self.act(&format!("M:{}:{}", from, msg.data), ctx);
        Ok(())
    }
    fn on_local_message(&mut self, msg: Message, ctx: &mut Context) -> Result<(), String> {
        self.act(&format!("L:{}", msg.data), ctx);
        Ok(())
    }
    fn on_timer(&mut self, timer: String, ctx: &mut Context) -> Result<(), String> {
        self.act(&format!("T:{}", timer), ctx);
        Ok(())
    }
    fn state(&self) -> Result<Rc<dyn ProcessState>, String> {
        Ok(Rc::new((self.idx, self.hist.clone())))
    }
    fn set_state(&mut self, state: Rc<dyn ProcessState>) -> Result<(), String> {
        let s = state.downcast_ref::<(usize, Vec<String>)>().unwrap();
        self.idx = s.0;
        self.hist = s.1.clone();
        Ok(())
    }
}

struct Scn {
    nodes: Vec<String>,
    procs: Vec<(String, String)>,
    tables: Vec<Rc<Vec<Vec<Act>>>>,
    cap: usize,
    rates: (f64, f64, f64),
    kicks: Vec<(usize, usize)>,
    timers_ok: bool,
}

fn gen(seed: u64, timers: bool, faults: bool) -> Scn {
    let mut r = Pcg64::seed_from_u64(seed);
    let nn = r.gen_range(1..=3);
    let nodes: Vec<String> = (0..nn).map(|i| format!("n{}", i)).collect();
    let np = r.gen_range(2..=3);
    let procs: Vec<(String, String)> = (0..np)
        .map(|i| (format!("p{}", i), nodes[r.gen_range(0..nn)].clone()))
        .collect();
    let names = ["t0", "t1"];
    let delays = [0.0, 1.0, 1.0, 2.0];
    let mut tables = vec![];
    for _ in 0..np {
        let rows = r.gen_range(2..=4);
        let mut t = vec![];
        for _ in 0..rows {
            let k = r.gen_range(0..=2);
            let mut acts = vec![];
            for _ in 0..k {
                let c = if timers { r.gen_range(0..7) } else { r.gen_range(0..3) };
                acts.push(match c {
                    0 | 1 => Act::Send(procs[r.gen_range(0..np)].0.clone(), r.gen_range(0..MSGS.len())),
                    2 => Act::Local(r.gen_range(0..MSGS.len())),
                    3 | 4 => Act::Set(names[r.gen_range(0..2)].into(), delays[r.gen_range(0..4)]),
                    5 => Act::SetOnce(names[r.gen_range(0..2)].into(), delays[r.gen_range(0..4)]),
                    _ => Act::Cancel(names[r.gen_range(0..2)].into()),
                });
            }
            t.push(acts);
        }
        tables.push(Rc::new(t));
    }
    let pick = |r: &mut Pcg64| if faults && r.gen_bool(0.4) { 0.5 } else { 0.0 };
    let rates = (pick(&mut r), pick(&mut r), pick(&mut r));
    let nk = r.gen_range(1..=2);
    let kicks = (0..nk).map(|_| (r.gen_range(0..np), r.gen_range(0..MSGS.len()))).collect();
    Scn { nodes, procs, tables, cap: r.gen_range(1..=3), rates, kicks, timers_ok: timers }
}

fn build(s: &Scn, seed: u64, record_time: bool) -> System {
    let mut sys = System::new(seed);
    for n in &s.nodes {
        sys.add_node(n);
    }
    for (i, (p, n)) in s.procs.iter().enumerate() {
        sys.add_process(
            p,
            Box::new(Rnd { idx: 0, cap: s.cap, hist: vec![], table: s.tables[i].clone(), record_time }),
            n,
        );
    }
    sys
}

fn proj(st: &McState) -> String {
    let mut out = String::new();
    for (n, ns) in &st.node_states {
        for (p, ps) in &ns.proc_states {
            out.push_str(&format!("{}/{}:{:?}:{:?};", n, p, ps.proc_state, ps.local_outbox));
        }
    }
    out
}

fn explore(s: &Scn, strat: &str, mode: &str, limit: usize) -> Option<(bool, BTreeSet<String>)> {
    let sys = build(s, 1, false);
    let mut mc = ModelChecker::new(&sys);
    let seen = Rc::new(RefCell::new(BTreeSet::new()));
    let cnt = Rc::new(RefCell::new(0usize));
    let (s2, c2) = (seen.clone(), cnt.clone());
    let cfg = StrategyConfig::default()
        .goal(boxed!(|st: &McState| if st.events.is_empty() { Some("f".into()) } else { None }))
        .invariant(boxed!(move |st: &McState| {
            *c2.borrow_mut() += 1;
            if *c2.borrow() > limit {
                return Err("LIMIT".to_string());
            }
            s2.borrow_mut().insert(proj(st));
            Ok(())
        }))
        .visited_states(match mode {
            "full" => VisitedStates::Full(HashSet::new()),
            "partial" => VisitedStates::Partial(HashSet::new()),
            _ => VisitedStates::Disabled,
        });
    let rates = s.rates;
    let kicks = s.kicks.clone();
    let procs = s.procs.clone();
    let cb = move |m: &mut anysystem::mc::McSystem| {
        m.network().set_drop_rate(rates.0);
        m.network().set_dupl_rate(rates.1);
        m.network().set_corrupt_rate(rates.2);
        for (pi, mi) in &kicks {
            m.send_local_message(procs[*pi].1.clone(), procs[*pi].0.clone(), Message::new("K", MSGS[*mi]));
        }
    };
    let r = match strat {
        "bfs" => mc.run_with_change::<Bfs>(cfg, cb),
        _ => mc.run_with_change::<Dfs>(cfg, cb),
    };
    if let Err(e) = &r {
        if e.message() == "LIMIT" {
            return None;
        }
    }
    let set = seen.borrow().clone();
    Some((r.is_ok(), set))
}

fn mc_fuzz(n: u64, timers: bool, faults: bool) {
    let mut done = 0;
    let mut disagree = 0;
    let mut skipped = 0;
    for seed in 0..n {
        let s = gen(seed, timers, faults);
        let res = std::panic::catch_unwind(std::panic::AssertUnwindSafe(|| {
            let a = explore(&s, "bfs", "full", 4000)?;
            let b = explore(&s, "dfs", "full", 4000)?;
            let c = explore(&s, "bfs", "disabled", 40000)?;
            let d = explore(&s, "dfs", "partial", 4000)?;
            Some((a, b, c, d))
        }));
        match res {
            Err(_) => {
                println!("seed {} PANIC", seed);
                disagree += 1;
            }
            Ok(None) => skipped += 1,
            Ok(Some((a, b, c, d))) => {
                done += 1;
                if a != b || a != c || a != d {
                    disagree += 1;
                    println!(
                        "seed {} DISAGREE timers={} faults={} sizes bfs/full={} dfs/full={} bfs/dis={} dfs/part={} ok={:?}",
                        seed, s.timers_ok, faults, a.1.len(), b.1.len(), c.1.len(), d.1.len(), (a.0, b.0, c.0, d.0)
                    );
                }
            }
        }
    }
    println!("mc_fuzz timers={} faults={}: compared {} skipped {} disagreements {}", timers, faults, done, skipped, disagree);
}

// ---------------- simulator invariants ----------------
fn sim_fuzz(n: u64) {
    let mut bad = 0;
    for seed in 0..n {
        let s = gen(seed, true, true);
        let mut r = Pcg64::seed_from_u64(seed ^ 0xabcdef);
        let mut sys = build(&s, seed, true);
        sys.network().set_delays(0.5, 2.0);
        sys.network().set_drop_rate(s.rates.0);
        sys.network().set_dupl_rate(s.rates.1);
        sys.network().set_corrupt_rate(s.rates.2);
        let mut crashed: Vec<bool> = vec![false; s.nodes.len()];
        // crash intervals per node: (start_time, end_time)
        let mut intervals: Vec<Vec<(f64, f64)>> = vec![vec![]; s.nodes.len()];
        let node_of = |p: &str| s.procs.iter().find(|x| x.0 == p).unwrap().1.clone();
        for _ in 0..r.gen_range(5..25) {
            match r.gen_range(0..10) {
                0 | 1 | 2 => {
                    let (p, nd) = &s.procs[r.gen_range(0..s.procs.len())];
                    let ni = s.nodes.iter().position(|x| x == nd).unwrap();
                    if !crashed[ni] {
                        sys.send_local_message(p, Message::new("K", MSGS[r.gen_range(0..MSGS.len())]));
                    }
                }
                3 | 4 => {
                    sys.steps(r.gen_range(1..4));
                }
                5 => {
                    sys.step_for_duration(r.gen_range(0.0..2.0));
                }
                6 => {
                    let a = &s.nodes[r.gen_range(0..s.nodes.len())];
                    let b = &s.nodes[r.gen_range(0..s.nodes.len())];
                    match r.gen_range(0..5) {
                        0 => sys.network().disable_link(a, b),
                        1 => sys.network().enable_link(a, b),
                        2 => sys.network().drop_incoming(a),
                        3 => sys.network().drop_outgoing(a),
                        _ => sys.network().reset(),
                    }
                }
                7 | 8 => {
                    let ni = r.gen_range(0..s.nodes.len());
                    if !crashed[ni] {
                        sys.crash_node(&s.nodes[ni]);
                        crashed[ni] = true;
                        intervals[ni].push((sys.time(), f64::INFINITY));
                    } else {
                        sys.recover_node(&s.nodes[ni]);
                        crashed[ni] = false;
                        intervals[ni].last_mut().unwrap().1 = sys.time();
                        for (i, (p, nd)) in s.procs.iter().enumerate() {
                            if *nd == s.nodes[ni] {
                                sys.add_process(
                                    p,
                                    Box::new(Rnd { idx: 0, cap: s.cap, hist: vec![], table: s.tables[i].clone(), record_time: true }),
                                    nd,
                                );
                            }
                        }
                    }
                }
                _ => {
                    sys.step();
                }
            }
        }
        sys.step_until_no_events();
        // --- checks on the global trace
        let trace = sys.logger().trace().clone();
        let mut last_t = 0.0f64;
        let mut sent: std::collections::HashMap<String, (f64, String, String, Message)> = Default::default();
        let mut recv_cnt: std::collections::HashMap<String, usize> = Default::default();
        let mut drop_cnt: std::collections::HashMap<String, usize> = Default::default();
        let mut problems = vec![];
        for e in &trace {
            let t = match e {
                LogEntry::MessageSent { time, msg_id, src_node, dst_node, msg, .. } => {
                    sent.insert(msg_id.clone(), (*time, src_node.clone(), dst_node.clone(), msg.clone()));
                    *time
                }
                LogEntry::MessageReceived { time, msg_id, dst_proc, msg, .. } => {
                    *recv_cnt.entry(msg_id.clone()).or_default() += 1;
                    match sent.get(msg_id) {
                        None => problems.push(format!("recv of unsent {}", msg_id)),
                        Some((ts, sn, dn, m)) => {
                            let d = *time - *ts;
                            if sn == dn {
                                if d != 0.0 || m != msg { problems.push(format!("local-node msg {} delay {} or payload", msg_id, d)); }
                            } else if !(d >= 0.5 - 1e-9 && d <= 2.0 + 1e-9) {
                                problems.push(format!("msg {} delay {} out of bounds", msg_id, d));
                            }
                            if m.data != msg.data && s.rates.2 == 0.0 { problems.push(format!("msg {} corrupted with rate 0", msg_id)); }
                        }
                    }
                    // receiver must not be crashed at this time
                    let nd = node_of(dst_proc);
                    let ni = s.nodes.iter().position(|x| *x == nd).unwrap();
                    for (a, b) in &intervals[ni] {
                        if *time > *a && *time < *b { problems.push(format!("recv {} on crashed node at {}", msg_id, time)); }
                    }
                    *time
                }
                LogEntry::MessageDropped { time, msg_id, .. } => {
                    *drop_cnt.entry(msg_id.clone()).or_default() += 1;
                    *time
                }
                LogEntry::TimerFired { time, proc, .. } => {
                    let nd = node_of(proc);
                    let ni = s.nodes.iter().position(|x| *x == nd).unwrap();
                    for (a, b) in &intervals[ni] {
                        if *time > *a && *time < *b { problems.push(format!("timer on crashed node at {}", time)); }
                    }
                    *time
                }
                LogEntry::LocalMessageReceived { time, .. } | LogEntry::LocalMessageSent { time, .. } | LogEntry::TimerSet { time, .. } | LogEntry::TimerCancelled { time, .. } => *time,
                _ => last_t,
            };
            if t < last_t { problems.push(format!("time went back {} -> {}", last_t, t)); }
            last_t = t;
        }
        for (id, c) in &recv_cnt {
            let d = drop_cnt.get(id).copied().unwrap_or(0);
            if s.rates.1 == 0.0 && *c > 1 { problems.push(format!("msg {} received {} times with dupl 0", id, c)); }
            if *c > 3 { problems.push(format!("msg {} received {} times", id, c)); }
            if c + d > 3 { problems.push(format!("msg {} fates {}+{}", id, c, d)); }
        }
        // in-flight at crash never delivered: message sent at ts < crash start a, involving node, received at time > a
        for e in &trace {
            if let LogEntry::MessageReceived { time, msg_id, .. } = e {
                let (ts, sn, dn, _) = sent.get(msg_id).unwrap();
                for (ni, nd) in s.nodes.iter().enumerate() {
                    if nd == sn || nd == dn {
                        for (a, _b) in &intervals[ni] {
                            if *ts <= *a && *time > *a && !(*ts == *a) { problems.push(format!("msg {} sent {} before crash {} delivered {}", msg_id, ts, a, time)); }
                        }
                    }
                }
            }
        }
        // counters
        for (p, nd) in &s.procs {
            let ni = s.nodes.iter().position(|x| x == nd).unwrap();
            let since = intervals[ni].last().map(|x| x.1).unwrap_or(-1.0);
            if since.is_infinite() { continue; }
            let mut started = intervals[ni].is_empty();
            let (mut sc, mut rc) = (0u64, 0u64);
            let mut rec_seen = intervals[ni].len();
            for e in &trace {
                match e {
                    LogEntry::NodeRecovered { node, .. } if node == nd => { rec_seen -= 1; if rec_seen == 0 { started = true; sc = 0; rc = 0; } }
                    LogEntry::MessageSent { src_proc, .. } if started && src_proc == p => sc += 1,
                    LogEntry::MessageReceived { dst_proc, .. } if started && dst_proc == p => rc += 1,
                    _ => {}
                }
            }
            if sys.sent_message_count(p) != sc || sys.received_message_count(p) != rc {
                problems.push(format!("counters of {}: sent {} vs {}, recv {} vs {}", p, sys.sent_message_count(p), sc, sys.received_message_count(p), rc));
            }
        }
        if !problems.is_empty() {
            bad += 1;
            problems.sort();
            problems.dedup();
            println!("sim seed {}: {:?}", seed, &problems[..problems.len().min(4)]);
        }
    }
    println!("sim_fuzz: {} scenarios, {} with problems", n, bad);
}

fn sim_proj(sys: &System, s: &Scn) -> String {
    let mut out = String::new();
    let mut nodes = s.nodes.clone();
    nodes.sort();
    for n in &nodes {
        let mut ps: Vec<&String> = s.procs.iter().filter(|x| x.1 == *n).map(|x| &x.0).collect();
        ps.sort();
        for p in ps {
            let st = sys.get_node(n).unwrap().get_process(p).unwrap().state().unwrap();
            out.push_str(&format!("{}/{}:{:?}:{:?};", n, p, st, sys.local_outbox(p)));
        }
    }
    out
}

// variant 0: snapshot of the fresh system, kicks in the callback / in the twin simulation (no snapshot timers)
// variant 1: kicks + a few steps in the simulator, then snapshot (snapshot timers possible -> F3)
fn handoff_fuzz(n: u64, timers: bool, corrupt: bool, variant: u32) {
    let (mut done, mut fail, mut skipped) = (0, 0, 0);
    for seed in 0..n {
        let mut s = gen(seed, timers, true);
        if !corrupt { s.rates.2 = 0.0; }
        let mut r = Pcg64::seed_from_u64(seed ^ 0x5555);
        let mut sys = build(&s, seed, false);
        sys.network().set_delays(0.5, 2.0);
        sys.network().set_drop_rate(s.rates.0);
        sys.network().set_dupl_rate(s.rates.1);
        sys.network().set_corrupt_rate(s.rates.2);
        if variant == 1 {
            for (pi, mi) in &s.kicks { sys.send_local_message(&s.procs[*pi].0, Message::new("K", MSGS[*mi])); }
            sys.steps(r.gen_range(0..3));
        }
        let mut mc = ModelChecker::new(&sys);
        let seen = Rc::new(RefCell::new(BTreeSet::new()));
        let cnt = Rc::new(RefCell::new(0usize));
        let (s2, c2) = (seen.clone(), cnt.clone());
        let cfg = StrategyConfig::default()
            .goal(boxed!(|st: &McState| if st.events.is_empty() { Some("f".into()) } else { None }))
            .invariant(boxed!(move |st: &McState| {
                *c2.borrow_mut() += 1;
                if *c2.borrow() > 20000 { return Err("LIMIT".to_string()); }
                s2.borrow_mut().insert(proj(st));
                Ok(())
            }))
            .visited_states(VisitedStates::Full(HashSet::new()));
        let kicks = s.kicks.clone();
        let procs = s.procs.clone();
        let res = std::panic::catch_unwind(std::panic::AssertUnwindSafe(|| {
            mc.run_with_change::<Bfs>(cfg, move |m| {
                if variant == 0 {
                    for (pi, mi) in &kicks { m.send_local_message(procs[*pi].1.clone(), procs[*pi].0.clone(), Message::new("K", MSGS[*mi])); }
                }
            })
        }));
        let r = match res { Ok(r) => r, Err(_) => { println!("seed {} PANIC in mc", seed); fail += 1; continue; } };
        if let Err(e) = &r { if e.message() == "LIMIT" { skipped += 1; continue; } }
        // continue the simulation
        if variant == 0 {
            for (pi, mi) in &s.kicks { sys.send_local_message(&s.procs[*pi].0, Message::new("K", MSGS[*mi])); }
        }
        let mut path = vec![sim_proj(&sys, &s)];
        let mut steps = 0;
        while sys.step() { path.push(sim_proj(&sys, &s)); steps += 1; if steps > 500 { break; } }
        done += 1;
        let set = seen.borrow();
        if let Some(i) = path.iter().position(|p| !set.contains(p)) {
            fail += 1;
            if fail <= 6 { println!("seed {} variant {}: sim state #{} of {} not visited by MC ({} MC states) rates={:?}", seed, variant, i, path.len(), set.len(), s.rates); }
        }
    }
    println!("handoff timers={} corrupt={} variant={}: compared {} skipped {} NOT-INCLUDED {}", timers, corrupt, variant, done, skipped, fail);
}

fn main() {
    let a: Vec<String> = std::env::args().collect();
    let n: u64 = a.get(2).map(|x| x.parse().unwrap()).unwrap_or(200);
    match a.get(1).map(|s| s.as_str()) {
        Some("mc_msgs") => mc_fuzz(n, false, false),
        Some("mc_faults") => mc_fuzz(n, false, true),
        Some("mc_timers") => mc_fuzz(n, true, false),
        Some("mc_all") => mc_fuzz(n, true, true),
        Some("sim") => sim_fuzz(n),
        Some("h_msgs") => handoff_fuzz(n, false, false, 1),
        Some("h_msgs_corrupt") => handoff_fuzz(n, false, true, 1),
        Some("h_timers_cb") => handoff_fuzz(n, true, false, 0),
        Some("h_timers_cb_corrupt") => handoff_fuzz(n, true, true, 0),
        Some("h_timers_snap") => handoff_fuzz(n, true, false, 1),
        _ => println!("usage"),
    }
}
