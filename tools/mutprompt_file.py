#!/usr/bin/env python3
"""mutprompt_file.py <file(s)> <worktree>: prompt for a mutation sub-agent that must seed a change in the given source
file(s) breaking ANY of the 20 properties (it gets all property texts, nothing from /verif)."""
import json, sys
files, wt = sys.argv[1], sys.argv[2]
props = [json.loads(l) for l in open('/verif/properties.jsonl')]
head = open('/verif/tools/mutprompt.py').read()
txt = """You are a software engineer helping to evaluate a verification effort by SEEDING a realistic defect. You work ONLY inside the git worktree directory given below (a checkout of the Rust crate `anysystem`: a framework for deterministic discrete-event simulation and explicit-state model checking of message-passing distributed systems). Do not read or write anything under /verif, /repo, or any other directory under /tmp than your worktree. The crate builds offline: always pass `--offline` to cargo and set `CARGO_TARGET_DIR=<worktree>/target` so that you do not share build output with anyone (e.g. `CARGO_TARGET_DIR=$PWD/target cargo test --offline`). The existing test suite is `cargo test --offline` (166 tests) and currently passes.

Your job: produce a SMALL change in the source file(s) %s (only there; not tests, not Cargo.toml; do not touch anything guarded by `#[cfg(anysystem_verif)]`) that BREAKS at least one of the semantic properties listed below while (1) the crate still compiles and (2) the whole existing test suite still passes unedited. The change should look like a plausible programming mistake or a well-meant "optimisation"/refactoring, not sabotage; and it should need something SPECIFIC to manifest - a particular interleaving, a crash or fault at a particular point, a multi-step sequence of operations, an unusual input, or two cooperating sites that each look fine alone. Prefer subtle changes in logic that the existing tests do not pin down (orderings, boundary conditions, which fields are copied / compared / logged, early exits, off-by-one in counts or depths, conditions that are almost always equivalent). Do NOT use the idea "skip a state restore when a partial equality says nothing changed" (already used several times).

Deliver, inside the worktree:
  1. the change applied to the working tree (uncommitted), and the same as `patch.diff` at the worktree root (`git diff -- src python > patch.diff`);
  2. a demonstration - a small self-contained Rust integration test file `tests/seeded_demo.rs` using only the public API of the crate, that FAILS with your change and PASSES without it (verify both with `git apply -R patch.diff` / `git apply patch.diff`);
  3. `NOTES.md`: which property (id) and clause is broken, what is needed for the defect to manifest, exactly which commands you ran to show (a) the suite passes with the change (move the demo file away for that run), (b) the demo fails with the change, (c) the demo passes without it.
Budget: about 45 minutes. If your first idea is caught by the existing tests, try another; report honestly if you cannot find one. In your final report give: the diff, the property id(s) broken, what manifests it.

WORKTREE: %s

THE PROPERTIES
""" % (files, wt)
for p in props:
    txt += "\n%s: %s\n  %s\n  (for %s)\n" % (p['id'], p['title'], p['statement'], p['quantifier']['text'])
print(txt)
