#!/bin/sh
# sweep.sh <seed>...: run every quick check on the current tree with the given seeds (false-alarm hunt); the evidence
# files are put back afterwards
cd /verif
mkdir -p build/ev-sweep && cp evidence/*.json build/ev-sweep/
for s in "$@"; do
  for p in C01 C02 C03 C04 C05 C06 C07 C08 C09 C10 C11 C12 C13 C14 C15 C16 C17 C18 C19 C20; do
    VERIF_SEED=$s ./check $p --no-build 2>&1 | grep -v "^KNOWN\|^note" | tail -1
    for f in replays/$p-*; do [ -e "$f" ] && mkdir -p build/sweep-replays && cp "$f" build/sweep-replays/seed$s-$(basename $f); done
  done
done
cp build/ev-sweep/*.json evidence/
