"""Scenario suites (generator + correspondence + monitors) and the registry of claimed properties."""
import hashlib
import json
import os
import random

import vlib
import gen_store


class Ctx:
    def __init__(self, prop, tier, seed):
        self.prop = prop
        self.tier = tier
        self.seed = seed
        self.widen = False
        self.evaluations = 0
        self.validated = 0
        self.nontrivial = set()
        self.samples = []
        self.disagreements = []
        self.monitor_failures = []
        self.known_hits = {}
        self.clauses = set()
        self.distribution = {}

    def count(self, key, n=1):
        self.distribution[key] = self.distribution.get(key, 0) + n

    def scale(self, quick, thorough):
        n = thorough if self.tier == "thorough" else quick
        return n * 4 if self.widen else n


def sc_hash(sc):
    return hashlib.sha256(("\n".join(sc[2])).encode()).hexdigest()[:16]


def load_corpus(cls):
    """minimised failures kept from earlier rounds; run first on every check."""
    d = os.path.join(vlib.ROOT, "corpus")
    out = []
    for f in sorted(os.listdir(d)):
        if f.startswith(cls + "-") and f.endswith(".scn"):
            lines = [l.rstrip("\n") for l in open(os.path.join(d, f)) if l.strip() and not l.startswith("#")]
            out.append((cls, "corpus-" + f[:-4], lines))
    return out


# ---------------------------------------------------------------------------------------------------
# STORE suite (C20, C13 exactness half)

DUMP_KEYS = ("LIVE", "OFF", "OFFMF", "EMPTY", "NEXT")


def store_spec_replay(impl_lines, sid):
    """Turn the implementation's own history into a SPECREPLAY script (raw ops + dump points)."""
    lines = []
    for l in impl_lines:
        if l.startswith("RAW "):
            lines.append(l)
        elif l.startswith("RPTIMERS"):
            lines.append("DUMP")
    return ("SPECREPLAY", sid, lines)


def store_monitor(sc, impl_lines, spec_lines):
    """C20 / C13a monitor: the implementation's observable history against Spec.StoreSpec run on the raw
    operations the implementation performed. Returns list of (clause, detail)."""
    fails = []
    impl = [l for l in impl_lines if l.split(" ")[0] in ("RAW", "RET", "PANIC") + DUMP_KEYS]
    si = 0
    spec = list(spec_lines)
    legal = True
    i = 0
    last_live = None
    while i < len(impl):
        l = impl[i]
        k = l.split(" ")[0]
        if k == "RAW":
            if si >= len(spec):
                fails.append(("replay_short", "spec replay ended early at %r" % l))
                break
            if spec[si] == "ILLEGAL":
                legal = False
                break
            # the implementation's answer to this raw op is the next RET (or PANIC)
            nxt = impl[i + 1] if i + 1 < len(impl) else "<none>"
            if nxt == "PANIC":
                fails.append(("no_panic", "implementation panicked on an operation the specification allows: %s" % l))
                break
            if nxt.startswith("RET"):
                if nxt != spec[si]:
                    fails.append(("return_value", "%s: implementation %r, specification %r" % (l, nxt, spec[si])))
                    break
                i += 1
            si += 1
        elif k == "PANIC":
            # a panic with no preceding RAW of this op (e.g. inside available_events)
            fails.append(("no_panic", "implementation panicked"))
            break
        elif k in DUMP_KEYS:
            if si >= len(spec):
                fails.append(("replay_short", "spec replay ended early at dump"))
                break
            if l != spec[si]:
                clause = {"LIVE": "live_set", "OFF": "offered_exact", "OFFMF": "offered_messages_first",
                          "EMPTY": "is_empty", "NEXT": "id_counter"}[k]
                fails.append((clause, "implementation %r, specification %r" % (l, spec[si])))
                break
            if k == "LIVE":
                last_live = l
            if k == "OFF" and last_live is not None:
                if last_live.strip() != "LIVE" and l.strip() in ("OFF", "OFF PANIC"):
                    fails.append(("liveness", "events pending but nothing offered: %s / %s" % (last_live, l)))
                    break
            si += 1
        i += 1
    return fails, legal


def suite_store(ctx, can_run_model):
    rng = random.Random(ctx.seed * 1000003 + 17)
    n = ctx.scale(400, 20000)
    scs = load_corpus("STORE") if not ctx.widen else []
    for j in range(n):
        malformed = (j % 10 == 9)
        scs.append(gen_store.gen_scenario(rng, "s%d-%d" % (ctx.seed, j), malformed=malformed))
    impl = vlib.run_impl(scs, "store-impl")
    model = vlib.run_model(scs, "store-model") if can_run_model else {}
    # spec replay of the implementation's own histories
    replays = [store_spec_replay(impl[sc[1]], sc[1]) for sc in scs]
    spec = vlib.run_model(replays, "store-spec") if can_run_model else {}
    for sc in scs:
        sid = sc[1]
        ctx.evaluations += 1
        f = gen_store.classify(sc)
        il = impl.get(sid, [])
        ctx.count("ops_total", f["ops"])
        for key in ("has_dup", "has_corrupt", "has_cancel_proc", "has_cancel_timer", "malformed"):
            if f[key]:
                ctx.count(key)
        if any(l == "PANIC" for l in il):
            ctx.count("impl_panics")
        if len(ctx.samples) < 3:
            ctx.samples.append({"scenario": vlib.scenario_text(sc), "impl_observation_head": il[:12]})
        if can_run_model:
            d = vlib.first_diff(il, model.get(sid, []))
            if d is not None:
                ctx.disagreements.append({"suite": "STORE model-vs-impl", "scenario": vlib.scenario_text(sc),
                                          "diff": {"line": d[0], "impl": d[1], "model": d[2]}})
            else:
                ctx.validated += 1
            ml = model.get(sid, [])
            info = [l for l in ml if l.startswith("#SPEC")]
            if info and "mismatch=none" not in info[0]:
                ctx.disagreements.append({"suite": "STORE model-vs-spec (theorem store_refines)",
                                          "scenario": vlib.scenario_text(sc), "diff": {"info": info[0]}})
            fails, legal = store_monitor(sc, il, spec.get(sid, []))
            ctx.clauses.update(["no_panic", "return_value", "live_set", "offered_exact", "offered_messages_first",
                                "is_empty", "id_counter", "liveness"])
            if legal:
                ctx.count("legal_scenarios")
            else:
                ctx.count("left_legal_domain")
            for clause, detail in fails:
                ctx.monitor_failures.append({"clause": clause, "detail": detail, "scenario": vlib.scenario_text(sc),
                                             "impl": il[:400], "expected": spec.get(sid, [])[:400], "seed": ctx.seed,
                                             "suite": "STORE"})
            # non-trivial: legal, and exercises re-insertion under a fixed id or a process cancel with
            # something pending, with at least one timer and one message
            raw = [l for l in il if l.startswith("RAW ")]
            if legal and f["timers"] > 0 and f["msgs"] > 0 and any(
                    l.startswith("RAW PUSHFIXED") or l.startswith("RAW CANCELPROC") or l.startswith("RAW CANCELTIMER")
                    for l in raw):
                ctx.nontrivial.add(sc_hash(sc))


# ---------------------------------------------------------------------------------------------------

def match_known(mf, known):
    for k in known:
        if mf["clause"] in k.get("clauses", []) and k.get("suite") == mf.get("suite"):
            pred = KNOWN_CLASS.get(k.get("class"))
            if pred and pred(mf):
                return k
    return None


KNOWN_CLASS = {}


def replay(prop, path):
    """Re-run the scenario stored in a replay file against the current tree and print both histories."""
    r = json.load(open(path))
    text = r.get("scenario") or (r.get("smallest_disagreement") or {}).get("scenario")
    if not text:
        print(json.dumps(r, indent=1))
        return 0
    lines = text.split("\n")
    hdr = lines[0].split()
    sc = (hdr[1], hdr[2], lines[1:-1])
    impl = vlib.run_impl([sc], "replay-impl", shards=1)
    model = vlib.run_model([sc], "replay-model", shards=1)
    print("--- implementation")
    print("\n".join(impl.get(sc[1], [])))
    print("--- model")
    print("\n".join(model.get(sc[1], [])))
    d = vlib.first_diff(impl.get(sc[1], []), model.get(sc[1], []))
    print("--- first difference:", d)
    return 0


STD_ASSUMPTIONS = [
    "the model functions compute what the Rust functions they mirror compute (checked by the correspondence run "
    "of this check on the scenarios counted above, not proved)",
    "Rust std collections behave as specified (BTreeMap/BTreeSet sorted, VecDeque FIFO)",
]

PROPERTIES = {
    "C20": {
        "suites": [suite_store],
        "rule": "STORE scenarios: random operation scripts (push message/timer, pop offered, pop any live, duplicate "
                "= pop + push_with_fixed_id + push, corrupt = pop + push_with_fixed_id, cancel_timer, "
                "cancel_proc_events; every 10th script also raw pops / re-insertions of arbitrary ids) over 2-3 "
                "processes, 1-2 timer names, 5 delays, 1-3 distinct messages; after every operation the offered "
                "sets (both modes), live events, id counter and all internal indexes are compared between "
                "implementation and model, and the implementation's history is replayed through Spec.StoreSpec. "
                "distinct_nontrivial = distinct scripts that stay legal, contain a timer and a message and a "
                "re-insertion under a fixed id, a cancel_timer or a cancel_proc_events",
        "assumptions": STD_ASSUMPTIONS + [
            "legal operation sequences are those Spec.StoreSpec.legal accepts (push anything; pop a pending id; "
            "push_with_fixed_id a message under a non-pending id below the counter; cancel_timer when the name's "
            "last timer is pending or the name was never used; cancel_proc_events)"],
    },
}
