"""Scenario suites (generator + correspondence + monitors) and the registry of claimed properties."""
import hashlib
import json
import os
import random

import vlib
import gen_store
import gen_mc
import gen_sim
import gen_handoff
import simmon
import subprocess
import re


class Ctx:
    def __init__(self, prop, tier, seed):
        self.prop = prop
        self.tier = tier
        self.seed = seed
        self.widen = False
        self.evaluations = 0
        self.validated = 0
        self.nontrivial = set()
        self.samples = []
        self.disagreements = []
        self.monitor_failures = []
        self.known_hits = {}
        self.clauses = set()
        self.distribution = {}

    def count(self, key, n=1):
        self.distribution[key] = self.distribution.get(key, 0) + n

    def scale(self, quick, thorough):
        n = thorough if self.tier == "thorough" else quick
        return n * 4 if self.widen else n


def sc_hash(sc):
    return hashlib.sha256(("\n".join(sc[2])).encode()).hexdigest()[:16]


def load_corpus(cls):
    """minimised failures kept from earlier rounds; run first on every check."""
    d = os.path.join(vlib.ROOT, "corpus")
    out = []
    for f in sorted(os.listdir(d)):
        if f.startswith(cls + "-") and f.endswith(".scn"):
            lines = [l.rstrip("\n") for l in open(os.path.join(d, f)) if l.strip() and not l.startswith("#")]
            out.append((cls, "corpus-" + f[:-4], lines))
    return out


# ---------------------------------------------------------------------------------------------------
# STORE suite (C20, C13 exactness half)

DUMP_KEYS = ("LIVE", "OFF", "OFFMF", "EMPTY", "NEXT")


def store_spec_replay(impl_lines, sid):
    """Turn the implementation's own history into a SPECREPLAY script (raw ops + dump points)."""
    lines = []
    for l in impl_lines:
        if l.startswith("RAW "):
            lines.append(l)
        elif l.startswith("RPTIMERS"):
            lines.append("DUMP")
    return ("SPECREPLAY", sid, lines)


def store_monitor(sc, impl_lines, spec_lines):
    """C20 / C13a monitor: the implementation's observable history against Spec.StoreSpec run on the raw
    operations the implementation performed. Returns list of (clause, detail)."""
    fails = []
    impl = [l for l in impl_lines if l.split(" ")[0] in ("RAW", "RET", "PANIC") + DUMP_KEYS]
    si = 0
    spec = list(spec_lines)
    legal = True
    i = 0
    last_live = None
    while i < len(impl):
        l = impl[i]
        k = l.split(" ")[0]
        if k == "RAW":
            if si >= len(spec):
                fails.append(("replay_short", "spec replay ended early at %r" % l))
                break
            if spec[si] == "ILLEGAL":
                legal = False
                break
            # the implementation's answer to this raw op is the next RET (or PANIC)
            nxt = impl[i + 1] if i + 1 < len(impl) else "<none>"
            if nxt == "PANIC":
                fails.append(("no_panic", "implementation panicked on an operation the specification allows: %s" % l))
                break
            if nxt.startswith("RET"):
                if nxt != spec[si]:
                    fails.append(("return_value", "%s: implementation %r, specification %r" % (l, nxt, spec[si])))
                    break
                i += 1
            si += 1
        elif k == "PANIC":
            # a panic with no preceding RAW of this op (e.g. inside available_events)
            fails.append(("no_panic", "implementation panicked"))
            break
        elif k in DUMP_KEYS:
            if si >= len(spec):
                fails.append(("replay_short", "spec replay ended early at dump"))
                break
            if l != spec[si]:
                clause = {"LIVE": "live_set", "OFF": "offered_exact", "OFFMF": "offered_messages_first",
                          "EMPTY": "is_empty", "NEXT": "id_counter"}[k]
                fails.append((clause, "implementation %r, specification %r" % (l, spec[si])))
                break
            if k == "LIVE":
                last_live = l
            if k == "OFF" and last_live is not None:
                if last_live.strip() != "LIVE" and l.strip() in ("OFF", "OFF PANIC"):
                    fails.append(("liveness", "events pending but nothing offered: %s / %s" % (last_live, l)))
                    break
            si += 1
        i += 1
    return fails, legal


def suite_store(ctx, can_run_model):
    rng = random.Random(ctx.seed * 1000003 + 17)
    n = ctx.scale(1500, 40000)
    scs = load_corpus("STORE") if not ctx.widen else []
    for j in range(n):
        malformed = (j % 10 == 9)
        scs.append(gen_store.gen_scenario(rng, "s%d-%d" % (ctx.seed, j), malformed=malformed))
    impl = vlib.run_impl(scs, "store-impl")
    model = vlib.run_model(scs, "store-model") if can_run_model else {}
    # spec replay of the implementation's own histories
    replays = [store_spec_replay(impl[sc[1]], sc[1]) for sc in scs]
    spec = vlib.run_model(replays, "store-spec") if can_run_model else {}
    for sc in scs:
        sid = sc[1]
        ctx.evaluations += 1
        f = gen_store.classify(sc)
        il = impl.get(sid, [])
        ctx.count("ops_total", f["ops"])
        for key in ("has_dup", "has_corrupt", "has_cancel_proc", "has_cancel_timer", "malformed"):
            if f[key]:
                ctx.count(key)
        if any(l == "PANIC" for l in il):
            ctx.count("impl_panics")
        if len(ctx.samples) < 3:
            ctx.samples.append({"scenario": vlib.scenario_text(sc), "impl_observation_head": il[:12]})
        if can_run_model:
            d = vlib.first_diff(il, model.get(sid, []))
            if d is not None:
                ctx.disagreements.append({"suite": "STORE model-vs-impl", "scenario": vlib.scenario_text(sc),
                                          "diff": {"line": d[0], "impl": d[1], "model": d[2]}})
            else:
                ctx.validated += 1
            ml = model.get(sid, [])
            info = [l for l in ml if l.startswith("#SPEC")]
            if info and "mismatch=none" not in info[0]:
                ctx.disagreements.append({"suite": "STORE model-vs-spec (theorem store_refines)",
                                          "scenario": vlib.scenario_text(sc), "diff": {"info": info[0]}})
            fails, legal = store_monitor(sc, il, spec.get(sid, []))
            ctx.clauses.update(["no_panic", "return_value", "live_set", "offered_exact", "offered_messages_first",
                                "is_empty", "id_counter", "liveness"])
            if legal:
                ctx.count("legal_scenarios")
            else:
                ctx.count("left_legal_domain")
            for clause, detail in fails:
                ctx.monitor_failures.append({"clause": clause, "detail": detail, "scenario": vlib.scenario_text(sc),
                                             "impl": il[:400], "expected": spec.get(sid, [])[:400], "seed": ctx.seed,
                                             "suite": "STORE"})
            # non-trivial: legal, and exercises re-insertion under a fixed id or a process cancel with
            # something pending, with at least one timer and one message
            raw = [l for l in il if l.startswith("RAW ")]
            if legal and f["timers"] > 0 and f["msgs"] > 0 and any(
                    l.startswith("RAW PUSHFIXED") or l.startswith("RAW CANCELPROC") or l.startswith("RAW CANCELTIMER")
                    for l in raw):
                ctx.nontrivial.add(sc_hash(sc))


# ---------------------------------------------------------------------------------------------------
# MC suites (C02, C03, C09, C10, C11, C14, C16)

KV = re.compile(r"(\w+)=(\S+)")


def parse_mc(lines):
    """split the observation of an MC scenario into runs"""
    runs = []
    cur = None
    for l in lines:
        if l in ("RUN", "RUNFROM"):
            cur = {"kind": l, "before": None, "checks": [], "result": None, "status": {}, "collected": None,
                   "after": None, "aftermode": None}
            runs.append(cur)
        elif cur is None:
            continue
        elif l.startswith("BEFORE "):
            cur["before"] = dict(KV.findall(l))
        elif l.startswith("CHECK "):
            cur["checks"].append(dict(KV.findall(l)))
        elif l.startswith("#CHECK "):
            cur.setdefault("panic_checks", []).append(dict(KV.findall(l)))
        elif l.startswith("RESULT "):
            cur["result"] = l.split()[1:]
        elif l.startswith("STATUS "):
            _, k, c = l.split()
            cur["status"][k] = int(c)
        elif l.startswith("COLLECTED "):
            cur["collected"] = l.split()[2:]
        elif l.startswith("AFTER "):
            cur["after"] = dict(KV.findall(l))
        elif l.startswith("AFTERMODE "):
            cur["aftermode"] = l.split()[1]
    return runs


def run_line_of(sc, k):
    rl = [l for l in sc[2] if l.startswith("RUN")]
    return rl[k].split() if k < len(rl) else None


def mc_monitors(sc, runs, ref_runs):
    """monitors on the implementation's own observation (and the reference-semantics run); returns (clause, detail)"""
    fails = []
    for k, r in enumerate(runs):
        rl = run_line_of(sc, k)
        if r["result"] is None or r["result"][0] in ("FUEL", "PANIC"):
            if r["result"] and r["result"][0] == "PANIC":
                fails.append(("C20:no_panic", "the model checker panicked in run %d" % k))
                pcs = r.get("panic_checks", [])
                crashed_run = any(c.get("cr", "[]") != "[]" for c in pcs) or any(l.startswith("CB CRASH") for l in sc[2])
                if crashed_run:
                    if any(c.get("x") == "1" for c in pcs):
                        fails.append(("C14:purged", "run %d: after crash_node a pending event still touches a process of the crashed node (the run then panicked)" % k))
                    else:
                        fails.append(("C14:no_panic", "run %d with a crashed node panicked" % k))
            continue
        debug = rl is not None and rl[3] == "1"
        # --- C09: rolled back exactly
        if r["before"] and r["after"]:
            for f in ("d", "core", "tr"):
                if r["before"][f] != r["after"][f]:
                    fails.append(("C09:rolled_back", "run %d: %s before=%s after=%s" % (k, f, r["before"][f], r["after"][f])))
                    break
        if r["aftermode"] is not None and r["aftermode"] != "0":
            fails.append(("C09:mode_restored", "run %d leaves the ordering mode changed" % k))
        # --- C14: crashed nodes are silent
        ks = set(c["k"] for c in r["checks"])
        if any(c["x"] == "1" for c in r["checks"]):
            fails.append(("C14:purged", "run %d: a pending event touches a process of a crashed node" % k))
        if r["kind"] == "RUN" and len(ks) > 1:
            fails.append(("C14:stays_silent", "run %d: the processes of a crashed node changed during the exploration" % k))
        # --- C03: verdict
        if r["result"][0] == "OK":
            bad = [c for c in r["checks"] if c["v"].startswith("E")]
            if bad:
                fails.append(("C03:verdict_ok", "run %d returned Ok but evaluated the invariant on a violating/dead-end state" % k))
        elif r["result"][0] == "ERR":
            last = r["checks"][-1] if r["checks"] else None
            if last is None or last["v"] != "E" + r["result"][1]:
                fails.append(("C03:error_genuine", "run %d: the reported error %s is not the verdict of the last evaluated state %s"
                              % (k, r["result"][1], last and last["v"])))
            elif last["tr"] != r["result"][3]:
                fails.append(("C02:error_trace", "run %d: the error trace is not the trace of the violating state" % k))
        # --- C16: collected exact, status counts
        if r["result"][0] == "OK":
            flagged = [c for c in r["checks"] if c["c"] == "1"]
            coll = r["collected"] or []
            coll_red = set(x.split(":")[0] for x in coll)
            flagged_full = set(c["red"] + ":" + c["tr"] for c in flagged)
            if not set(coll) <= flagged_full:
                fails.append(("C16:collected_sound", "run %d: a collected state was not evaluated / does not satisfy collect" % k))
            # exactness is MODULO THE CHECKER'S EQUALITY (C16_collected_exact): the collected HashSet keeps one
            # representative of each class, and without a cache a class can be evaluated at several depths
            eqp_of = {c["red"] + ":" + c["tr"]: c["eqp"] for c in flagged}
            coll_eqp = set(eqp_of[x] for x in coll if x in eqp_of)
            if set(c["eqp"] for c in flagged) != coll_eqp:
                fails.append(("C16:collected_complete", "run %d: collected set differs from the evaluated states satisfying collect" % k))
            cnt = {}
            for c in r["checks"]:
                if c["v"][0] in "GP":
                    cnt[c["v"][1:]] = cnt.get(c["v"][1:], 0) + 1
            if debug and cnt != r["status"]:
                fails.append(("C16:status_counts", "run %d: statuses %s but evaluated %s" % (k, r["status"], cnt)))
            if not debug and r["status"]:
                fails.append(("C16:status_counts", "run %d: statuses reported outside Debug mode" % k))
        # --- C19: library predicates against their documented meaning, from plain facts of the state
        if r["kind"] == "RUN" and r["before"] and r["checks"] and "pb" in r["checks"][0]:
            d0 = int(r["before"]["d"])
            f11 = False
            for c in r["checks"]:
                pb, dep = c["pb"], int(c["d"])
                for i, d in enumerate([0, 1, 2, 3, 5]):
                    if pb[i] != ("1" if dep > d else "0"):
                        fails.append(("C19:depth_predicates", "invariants::state_depth(%d) on a state of depth %d gave %s" % (d, dep, pb[i])))
                for i, d in enumerate([1, 2, 4, 8]):
                    if pb[5 + i] != ("1" if dep - d0 > d else "0") and not f11:
                        f11 = True
                        fails.append(("C19:state_depth_current_run",
                                      "invariants::state_depth_current_run(%d) gave %s on a state at run depth %d" % (d, pb[5 + i], dep - d0)))
                for i, d in enumerate([0, 2, 4]):
                    if pb[22 + i] != ("1" if dep >= d else "0"):
                        fails.append(("C19:depth_predicates", "goals::depth_reached(%d) at depth %d gave %s" % (d, dep, pb[22 + i])))
                if pb[21] != "1":
                    fails.append(("C19:depth_predicates", "goals::always_ok returned None"))
        # --- C02 / C03: against the exploration of the reference semantics
        if ref_runs is not None and k < len(ref_runs) and r["kind"] == "RUN":
            rr = ref_runs[k]
            if rr["result"] and rr["result"][0] == "OK" and r["result"][0] == "OK":
                # compared on the projection the checker's equality looks at (the reference semantics distinguishes
                # more states - insertion order of all pending events - so other fields may legitimately differ)
                a = set(c["eqp"] for c in r["checks"])
                b = set(c["eqp"] for c in rr["checks"])
                if not a <= b:
                    fails.append(("C02:state_genuine", "run %d: %d evaluated states are not reachable in the reference semantics"
                                  % (k, len(a - b))))
                if not b <= a:
                    fails.append(("C03:exhaustive", "run %d: %d states reachable in the reference semantics were not evaluated"
                                  % (k, len(b - a))))
            elif rr["result"] and rr["result"][0] in ("OK", "ERR") and rr["result"][0] != r["result"][0]:
                fails.append(("C03:verdict_kind", "run %d: implementation %s, reference semantics %s" % (k, r["result"][0], rr["result"][0])))
        # --- C16: a run from collected states explores the union of what is reachable from them after the callback:
        # the same stage explored by the reference semantics must evaluate the same states (modulo the checker's
        # equality).  Only where the comparison is meaningful: state-based predicates, or BFS everywhere (then a class
        # is first discovered at its minimal depth under both equalities, so depth-based collects agree as well)
        if ref_runs is not None and k < len(ref_runs) and r["kind"] == "RUNFROM" and staged_comparable(sc, k):
            rr = ref_runs[k]
            if rr["result"] and rr["result"][0] == "OK" and r["result"][0] == "OK" and rr["kind"] == "RUNFROM":
                a = set(c["eqp"] for c in r["checks"])
                b = set(c["eqp"] for c in rr["checks"])
                if a != b:
                    fails.append(("C16:stage_union", "run %d (from collected states): %d evaluated states are not reached by the "
                                  "reference semantics from the collected set, %d reached ones were not evaluated"
                                  % (k, len(a - b), len(b - a))))
    return fails


STATE_BASED_PREDS = ("NONE", "NOEVENTS", "OUTBOXEQ", "OUTBOXMAX", "HISTMAX", "ALL")


def staged_comparable(sc, upto=None):
    """may run number `upto` (default: the last) of a staged scenario be compared with the same stage of the reference
    semantics (whose equality is finer)?  Every run up to it must be comparable:
    * no Disabled mode;
    * a run from ONE start state: state-based predicates, or BFS (a class is first discovered at its minimal depth
      under both equalities, so depth-based predicates agree);
    * a run from SEVERAL start states shares one cache between them, and the order of the start states differs between
      the two semantics: whatever steers the exploration (invariant, goal, prune) must then be a function of the state -
      with a depth bound a state first reached deep from one start state hides its expansion from a shallower one
      (found by the thorough tier, seed 11); a depth-based COLLECT is still fine under BFS."""
    cur = {}
    k = -1
    for l in sc[2]:
        t = l.split()
        if t[0] == "PRED":
            cur[t[1]] = t[2]
        elif t[0] in ("RUN", "RUNFROM"):
            k += 1
            if t[2] == "DISABLED":
                return False
            sb = lambda which: cur.get(which, "NONE") in STATE_BASED_PREDS
            steer_sb = sb("INV") and sb("GOAL") and sb("PRUNE")
            if t[0] == "RUN":
                if not ((steer_sb and sb("COLLECT")) or t[1] == "BFS"):
                    return False
            else:
                if not (steer_sb and (sb("COLLECT") or t[1] == "BFS")):
                    return False
            if upto is not None and k >= upto:
                break
    return True



def battery_names():
    """names of the predicate-battery instances, in the order of harness/src/mc.rs pred_battery and Model/PredInst.v"""
    n = []
    n += ["invariants::state_depth(%d)" % d for d in (0, 1, 2, 3, 5)]
    n += ["invariants::state_depth_current_run(%d)" % d for d in (1, 2, 4, 8)]
    n += ["invariants::received_messages(n0,p0,{})", "invariants::received_messages(n0,p0,{d0})",
          "invariants::received_messages(n0,p0,{d0,d1})", "invariants::received_messages(n1,p1,{d1})",
          "invariants::received_messages(n1,p0,{d0}) [wrong node]"]
    for k in (0, 1, 2):
        n += ["goals::got_n_local_messages(n0,p0,%d)" % k, "goals::got_n_local_messages(n1,p1,%d)" % k]
    n += ["goals::no_events", "goals::always_ok"]
    n += ["goals::depth_reached(%d)" % d for d in (0, 2, 4)]
    for k in (1, 2, 3):
        n += ["goals::event_happened_n_times_current_run(is_recv,%d)" % k, "goals::event_happened_n_times_current_run(is_fired,%d)" % k]
    n += ["prunes::state_depth(%d)" % d for d in (0, 2, 4)]
    n += ["prunes::sent_messages_limit(%d)" % d for d in (0, 1, 2)]
    n += ["prunes::events_limit(is_recv,%d)" % d for d in (0, 1, 3)]
    n += ["prunes::events_limit_per_proc(recv_by,[p0,p1],%d)" % d for d in (0, 1, 2)]
    n += ["prunes::events_limit_per_proc(involves,[p0,p1],%d)" % d for d in (1, 2)]
    n += ["prunes::events_limit_per_proc(involves,[p1,p0],%d)" % d for d in (1, 2)]
    n += ["prunes::events_limit_per_proc(involves,[p2,p1,p0],1)"]
    n += ["prunes::event_happened_n_times_current_run(is_recv,%d)" % d for d in (1, 2)]
    n += ["prunes::proc_permutations([p0,p1])", "prunes::proc_permutations([p1,p0])", "prunes::proc_permutations([p0,p1,p2])",
          "prunes::proc_permutations([p2,p0])"]
    n += ["collects::state_depth(0)", "collects::state_depth(2)", "collects::no_events", "collects::got_n_local_messages(n0,p0,1)",
          "collects::events_limit(is_fired,0)", "collects::event_happened_n_times_current_run(is_fired,1)"]
    n += ["all_invariants", "any_goal", "all_goals", "any_prune", "any_collect", "all_collects",
          "default invariant", "default goal", "default prune", "default collect"]
    return n


KV_PB = re.compile(r" pb=([01x]+)")


def battery_diff(il, ml):
    """first state line on which implementation and model agree on everything except the predicate battery:
    the library predicate returns another value than its (proved) specification on a real McState"""
    for a, b in zip(il, ml):
        if a == b:
            continue
        ma, mb = KV_PB.search(a), KV_PB.search(b)
        if ma and mb and a[:ma.start()] == b[:mb.start()] and ma.group(1) != mb.group(1):
            names = battery_names()
            idx = [i for i, (x, y) in enumerate(zip(ma.group(1), mb.group(1))) if x != y]
            return a, [(names[i] if i < len(names) else "#%d" % i, ma.group(1)[i], mb.group(1)[i]) for i in idx]
        return None
    return None

def mc_run_all(ctx, scs, can_run_model, tag, with_ref=True):
    """run implementation, model and reference semantics on MC scenarios; record correspondence + monitors"""
    impl = vlib.run_impl(scs, tag + "-impl")
    model = vlib.run_model(scs, tag + "-model") if can_run_model else {}
    ref = vlib.run_model([("MCREF", s[1], s[2]) for s in scs], tag + "-ref") if (can_run_model and with_ref) else {}
    parsed = {}
    for sc in scs:
        sid = sc[1]
        ctx.evaluations += 1
        il = impl.get(sid, [])
        if can_run_model:
            d = vlib.first_diff(il, model.get(sid, []))
            if d is not None:
                ctx.disagreements.append({"suite": "MC model-vs-impl", "scenario": vlib.scenario_text(sc),
                                          "diff": {"line": d[0], "impl": d[1], "model": d[2]}})
                bd = battery_diff(il, model.get(sid, []))
                if bd is not None:
                    ctx.monitor_failures.append({
                        "clause": "C19:predicate_value",
                        "detail": "on the state of line '%s...' the library returns another value than the specification: %s"
                                  % (bd[0][:60], "; ".join("%s: library %s, specification %s" % t for t in bd[1])),
                        "scenario": vlib.scenario_text(sc), "impl": il[:300], "seed": ctx.seed, "suite": "MC"})
            else:
                ctx.validated += 1
        runs = parse_mc(il)
        ref_runs = parse_mc(ref.get(sid, [])) if sid in ref else None
        parsed[sid] = runs
        nstates = sum(len(r["checks"]) for r in runs)
        ctx.count("states_checked", nstates)
        for r in runs:
            if r["result"]:
                ctx.count("result_" + r["result"][0])
        xtm = [l for l in il if l.startswith("XTM ")]
        if xtm:
            ctx.monitor_failures.append({
                "clause": "C07:mc_bookkeeping",
                "detail": "on an explored state the framework's pending-timer bookkeeping differs from what the process asked "
                          "for by its set_timer / set_timer_once / cancel_timer calls and the firings it saw: %s" % xtm[0],
                "scenario": vlib.scenario_text(sc), "impl": il[:40], "seed": ctx.seed, "suite": "MC",
                "kind": "bookkeeping"})
        xlog = [l for l in il if l.startswith("XLOG ")]
        if xlog:
            ctx.monitor_failures.append({
                "clause": "C09:event_log_restored",
                "detail": "on an explored state the event log of a process does not tell the invocations the process itself "
                          "recorded on the path to that state (entries of another branch): %s" % xlog[0],
                "scenario": vlib.scenario_text(sc), "impl": il[:40], "seed": ctx.seed, "suite": "MC", "kind": "eventlog"})
        for clause, detail in mc_monitors(sc, runs, ref_runs):
            ctx.monitor_failures.append({"clause": clause, "detail": detail, "scenario": vlib.scenario_text(sc),
                                         "impl": il[:300], "seed": ctx.seed, "suite": "MC"})
        if len(ctx.samples) < 2:
            ctx.samples.append({"scenario": "\n".join(l for l in vlib.scenario_text(sc).split("\n") if not l.startswith("CLOCK")),
                                "impl_observation_head": il[:6]})
    ctx.clauses.update(["C09:rolled_back", "C09:mode_restored", "C14:purged", "C14:stays_silent", "C03:verdict_ok",
                        "C03:error_genuine", "C02:error_trace", "C16:collected_sound", "C16:collected_complete",
                        "C16:status_counts", "C16:stage_union", "C02:state_genuine", "C03:exhaustive", "C03:verdict_kind", "C20:no_panic",
                        "C19:depth_predicates", "C19:state_depth_current_run", "C14:no_panic", "C19:predicate_value", "C07:mc_bookkeeping",
                        "C09:event_log_restored"])
    return impl, parsed


def feat_count(ctx, feat):
    for k, v in feat.items():
        if v:
            ctx.count("feat_" + k)


def suite_mc(ctx, can_run_model):
    """random single runs (all strategies / modes), each run twice on the same checker"""
    rng = random.Random(ctx.seed * 1000003 + 29)
    n = ctx.scale(150, 6000)
    scs = []
    meta = {}
    for j in range(n):
        base = gen_mc.gen_crash_base(rng) if j % 6 == 5 else gen_mc.gen_base(rng)
        feat_count(ctx, base["feat"])
        vm = rng.choice(["FULL", "PARTIAL", "DISABLED"])
        st = rng.choice(["BFS", "DFS"])
        dp = rng.choice([4, 5, 6]) if vm == "DISABLED" else None
        sc = gen_mc.variant(base, "mc%d-%d" % (ctx.seed, j), st, vm, debug=rng.choice([0, 1]), repeat=2, depth_prune=dp)
        scs.append(sc)
        meta[sc[1]] = base
    impl, parsed = mc_run_all(ctx, scs, can_run_model, "mc")
    for sc in scs:
        runs = parsed[sc[1]]
        base = meta[sc[1]]
        # C09: repeating the run on the same checker gives the identical result
        if len(runs) == 2 and runs[0]["result"] and runs[1]["result"] and runs[0]["result"][0] not in ("FUEL", "PANIC"):
            a = (runs[0]["checks"], runs[0]["result"], runs[0]["status"], sorted(runs[0]["collected"] or []))
            b = (runs[1]["checks"], runs[1]["result"], runs[1]["status"], sorted(runs[1]["collected"] or []))
            if a != b:
                ctx.monitor_failures.append({"clause": "C09:repeat_identical", "detail": "second run differs from the first",
                                             "scenario": vlib.scenario_text(sc), "impl": impl[sc[1]][:300],
                                             "seed": ctx.seed, "suite": "MC"})
        ctx.clauses.add("C09:repeat_identical")
        nstates = sum(len(r["checks"]) for r in runs)
        f = base["feat"]
        if nstates >= 8 and (f["timers"] or f["drop"] or f["dupl"] or f["corrupt"] or f["crash"]):
            ctx.nontrivial.add(sc_hash(sc))


def red_set(run):
    return set(c["eqp"] for c in run["checks"])



def bfs_shortest_second_pass(ctx, cases, tag):
    """C10 'when BFS reports an error, no state at smaller depth breaks the invariant or is a dead end', decided with the
    implementation's own evidence: for every BFS run that reported an error at depth D >= 2 the same scenario is
    explored again with the exploration cut so that only states of depth <= D-1 are generated and evaluated (prune:
    depth > D-2); if THAT run reports an error, a shallower erroneous state exists."""
    second = []
    for (sc, D) in cases:
        if D < 2:
            continue
        lines = [l for l in sc[2] if not l.startswith("PRED PRUNE")]
        k = max(i for i, l in enumerate(lines) if l.startswith("PRED "))
        lines.insert(k + 1, "PRED PRUNE DEPTHGT %d" % (D - 2))
        second.append(((sc[0], sc[1] + "-short", lines), sc, D))
    if not second:
        return
    ctx.clauses.add("C10:bfs_shortest")
    impl = vlib.run_impl([x[0] for x in second], tag + "-short")
    for (sc2, sc, D) in second:
        runs = parse_mc(impl.get(sc2[1], []))
        ctx.count("bfs_shortest_second_pass")
        if runs and runs[0]["result"] and runs[0]["result"][0] == "ERR" and runs[0]["checks"]:
            d2 = int(runs[0]["checks"][-1]["d"])
            if d2 < D:
                ctx.monitor_failures.append({
                    "clause": "C10:bfs_shortest",
                    "detail": "BFS reported an error at depth %d, but exploring the same system only up to depth %d also reports "
                              "an error (at depth %d): a shallower erroneous state exists" % (D, D - 1, d2),
                    "scenario": vlib.scenario_text(sc), "impl": impl.get(sc2[1], [])[:40], "seed": ctx.seed, "suite": "MCMATRIX"})


def suite_mc_matrix(ctx, can_run_model):
    """every base system under 2 strategies x 3 visited modes (C10, C11, C01 order)"""
    rng = random.Random(ctx.seed * 1000003 + 31)
    n = ctx.scale(60, 2500)
    scs = []
    groups = []
    for j in range(n):
        feat = gen_mc.gen_features(rng)
        feat["clock"] = False          # clock-reading programs are known finding F14 (separate stream)
        feat["stateless"] = False      # for stateless processes the counters are not functions of the compared state
        base = gen_mc.gen_base(rng, feat)
        feat_count(ctx, base["feat"])
        dp = rng.choice([4, 5, 6])     # one depth bound for all six variants, so that they explore the same graph
        g = {}
        for st in ("BFS", "DFS"):
            for vm in ("FULL", "PARTIAL", "DISABLED"):
                sc = gen_mc.variant(base, "mx%d-%d-%s-%s" % (ctx.seed, j, st, vm), st, vm, debug=0, repeat=1, depth_prune=dp)
                scs.append(sc)
                g[(st, vm)] = sc
        groups.append((base, g))
    impl, parsed = mc_run_all(ctx, scs, can_run_model, "mx", with_ref=False)
    ctx.clauses.update(["C10:same_states", "C10:same_verdict", "C10:bfs_shortest", "C11:modes_same_states",
                        "C11:modes_same_verdict"])
    short_cases = []
    for base, g in groups:
        res = {}
        for key, sc in g.items():
            runs = parsed[sc[1]]
            if runs and runs[0]["result"] and runs[0]["result"][0] in ("OK", "ERR"):
                res[key] = runs[0]
        def fail(clause, detail, sc):
            ctx.monitor_failures.append({"clause": clause, "detail": detail, "scenario": vlib.scenario_text(sc),
                                         "impl": impl[sc[1]][:300], "seed": ctx.seed, "suite": "MCMATRIX"})
        # NOTE: the depth prune makes the predicates depend on depth: with a cache a class first reached on a longer
        # path may hide shorter ones (DFS).  Compare only what the properties promise for state-based predicates:
        # here the prune is the only non-state-based predicate, so we compare states BELOW the bound by content
        # (red digests contain the depth, so compare within equal strategy across modes with care).
        for vm in ("FULL", "PARTIAL", "DISABLED"):
            a0 = res.get(("BFS", vm))
            if a0 and a0["result"][0] == "ERR" and a0["checks"]:
                short_cases.append((g[("BFS", vm)], int(a0["checks"][-1]["d"])))
        for vm in ("FULL", "PARTIAL", "DISABLED"):
            a, b = res.get(("BFS", vm)), res.get(("DFS", vm))
            if a and b:
                if a["result"][0] != b["result"][0]:
                    fail("C10:same_verdict", "BFS %s vs DFS %s under %s" % (a["result"][0], b["result"][0], vm), g[("BFS", vm)])
                if a["result"][0] == "ERR" and b["result"][0] == "ERR":
                    if int(a["checks"][-1]["d"]) > int(b["checks"][-1]["d"]):
                        fail("C10:bfs_shortest", "BFS error at depth %s, DFS found one at depth %s" % (
                            a["checks"][-1]["d"], b["checks"][-1]["d"]), g[("BFS", vm)])
        for st in ("BFS", "DFS"):
            runs3 = [res.get((st, vm)) for vm in ("FULL", "PARTIAL", "DISABLED")]
            if all(runs3):
                kinds = set(r["result"][0] for r in runs3)
                if len(kinds) > 1:
                    fail("C11:modes_same_verdict", "%s: %s" % (st, [r["result"][0] for r in runs3]), g[(st, "FULL")])
        f = base["feat"]
        tot = sum(len(r["checks"]) for r in res.values())
        if tot >= 40 and (f["timers"] or f["drop"] or f["dupl"] or f["corrupt"]):
            ctx.nontrivial.add(sc_hash(g[("BFS", "FULL")]))
    _mx_finish(ctx, short_cases)


def _mx_finish(ctx, short_cases):
    bfs_shortest_second_pass(ctx, short_cases, "mx")


def suite_mc_matrix_sb(ctx, can_run_model):
    """state-based predicates only (no depth bound): BFS/DFS x Full/Partial agree on the SET of states; Disabled
    too when the graph is small enough to be walked as a tree"""
    rng = random.Random(ctx.seed * 1000003 + 37)
    n = ctx.scale(60, 2500)
    scs = []
    groups = []
    for j in range(n):
        feat = gen_mc.gen_features(rng)
        feat["clock"] = False
        feat["stateless"] = False
        feat["sink"] = rng.random() < 0.45      # an order-recording stateless sink: converging histories (C11 hash)
        base = gen_mc.gen_fanin_base(rng) if j % 5 == 2 else gen_mc.gen_relay_longpair_base(rng) if j % 10 == 4 else \
            gen_mc.gen_twin_delay_base(rng) if j % 10 == 9 else gen_mc.gen_base(rng, feat)
        feat_count(ctx, base["feat"])
        g = {}
        for st in ("BFS", "DFS"):
            for vm in ("FULL", "PARTIAL", "DISABLED"):
                sc = gen_mc.variant(base, "sb%d-%d-%s-%s" % (ctx.seed, j, st, vm), st, vm, debug=0, repeat=1)
                scs.append(sc)
                g[(st, vm)] = sc
        groups.append((base, g))
    impl, parsed = mc_run_all(ctx, scs, can_run_model, "sb", with_ref=False)
    for base, g in groups:
        res = {}
        for key, sc in g.items():
            runs = parsed[sc[1]]
            if runs and runs[0]["result"] and runs[0]["result"][0] in ("OK", "ERR"):
                res[key] = runs[0]
        def fail(clause, detail, sc):
            ctx.monitor_failures.append({"clause": clause, "detail": detail, "scenario": vlib.scenario_text(sc),
                                         "impl": impl[sc[1]][:300], "seed": ctx.seed, "suite": "MCMATRIX",
                                         "feat": base["feat"]})
        oks = {k: r for k, r in res.items() if r["result"][0] == "OK"}
        # content of a state without depth: strip the depth by using the core of (nodes, store) - the red digest
        # includes the depth, and equal states have equal depth only along equal-length paths; state-based
        # comparison therefore uses the projection without depth: not available as a digest -> compare (red) only
        # between runs that mark each class once at BFS depth (BFS Full/Partial) and compare SET SIZES + collected
        # + verdicts for the others
        if ("BFS", "FULL") in oks and ("BFS", "PARTIAL") in oks:
            if red_set(oks[("BFS", "FULL")]) != red_set(oks[("BFS", "PARTIAL")]):
                fail("C11:modes_same_states", "BFS Full vs Partial evaluate different sets", g[("BFS", "FULL")])
        if ("DFS", "FULL") in oks and ("DFS", "PARTIAL") in oks:
            if red_set(oks[("DFS", "FULL")]) != red_set(oks[("DFS", "PARTIAL")]):
                fail("C11:modes_same_states", "DFS Full vs Partial evaluate different sets", g[("DFS", "FULL")])
        cached = [oks.get((st, vm)) for st in ("BFS", "DFS") for vm in ("FULL", "PARTIAL")]
        if all(cached):
            sizes = set(len(r["checks"]) for r in cached)
            if len(sizes) > 1:
                fail("C10:same_states", "numbers of distinct states evaluated differ: %s" % sorted(sizes), g[("BFS", "FULL")])
            colls = set(len(r["collected"] or []) for r in cached)
            if len(colls) > 1:
                fail("C10:same_states", "numbers of collected states differ: %s" % sorted(colls), g[("BFS", "FULL")])
        kinds = set(r["result"][0] for r in res.values())
        if len(res) >= 2 and len(kinds) > 1:
            fail("C10:same_verdict", "verdicts differ: %s" % {("%s/%s" % k): r["result"][0] for k, r in res.items()},
                 g[("BFS", "FULL")])
        f = base["feat"]
        tot = sum(len(r["checks"]) for r in res.values())
        if tot >= 40 and (f["timers"] or f["drop"] or f["dupl"] or f["corrupt"] or f.get("sink")):
            ctx.nontrivial.add(sc_hash(g[("BFS", "FULL")]))


def suite_mc_staged(ctx, can_run_model):
    rng = random.Random(ctx.seed * 1000003 + 41)
    n = ctx.scale(80, 3000)
    scs = []
    for j in range(n):
        base = gen_mc.gen_base(rng)
        feat_count(ctx, base["feat"])
        st = rng.choice(["BFS", "DFS"])
        vm = rng.choice(["FULL", "PARTIAL"])
        scs.append(gen_mc.staged(rng, base, "sg%d-%d" % (ctx.seed, j), st, vm, debug=1))
    # with the reference semantics run alongside: C16:stage_union compares every stage run from collected states
    impl, parsed = mc_run_all(ctx, scs, can_run_model, "sg", with_ref=True)
    for sc in scs:
        runs = parsed[sc[1]]
        if len(runs) == 3:
            ctx.count("three_stage_runs")
        if len(runs) >= 2 and runs[0]["collected"] and len(runs[0]["collected"]) >= 2 and len(runs[1]["checks"]) >= 4:
            ctx.nontrivial.add(sc_hash(sc))
            ctx.count("staged_with_2plus_starts")


# ---------------------------------------------------------------------------------------------------
# SIM suite (C01 sim half, C05, C06, C07 sim half, C08, C17)

def fill_draws(raw):
    """the model needs the simulation's random stream: regenerate it with the same crates (harness draws)"""
    seeds = sorted(set(x[2] for x in raw))
    dr = {}
    for i in range(0, len(seeds), 200):
        out = subprocess.run([vlib.HARNESS_BIN, "draws", str(gen_sim.NDRAWS)] + [str(s) for s in seeds[i:i + 200]],
                             stdout=subprocess.PIPE).stdout.decode()
        for l in out.strip().split("\n"):
            if l:
                dr[int(l.split()[0])] = " ".join(l.split()[1:])
    return [(sc[0], sc[1], [("DRAWS " + dr[seed]) if l == "DRAWS" else l for l in sc[2]]) for (sc, feat, seed) in raw]


def suite_sim(ctx, can_run_model, repeat=False):
    rng = random.Random(ctx.seed * 1000003 + 43)
    n = ctx.scale(500, 30000)
    raw = [gen_sim.gen_scenario(rng, "y%d-%d" % (ctx.seed, j)) for j in range(n)]
    scs = fill_draws(raw)
    env = {"ASV_REPEAT": "1"} if repeat else None
    impl = vlib.run_impl(scs, "sim-impl", env=env)
    model = vlib.run_model(scs, "sim-model") if can_run_model else {}
    impl2 = vlib.run_impl(scs, "sim-impl2") if repeat else None
    # C17: a system that also logs to a file must produce the same trace (apart from ProcessStateUpdated entries)
    implf = None
    if ctx.prop == "C17" and not repeat:
        logdir = os.path.join(vlib.WORK, "simlogs")
        os.makedirs(logdir, exist_ok=True)
        implf = vlib.run_impl(scs[:150], "sim-logfile", env={"ASV_LOGFILE": logdir})
        ctx.clauses.add("C17:log_file_trace")
    ctx.clauses.update(simmon.CLAUSES)
    for (sc, (rsc, feat, seed)) in zip(scs, raw):
        sid = sc[1]
        ctx.evaluations += 1
        il = impl.get(sid, [])
        for k, v in feat.items():
            if v:
                ctx.count("feat_" + k)
        if "PANIC" in il:
            ctx.count("impl_panics")
        ctx.count("trace_entries", sum(1 for l in il if l.startswith("LOG")))
        if can_run_model:
            d = vlib.first_diff(il, model.get(sid, []))
            if d is not None:
                ctx.disagreements.append({"suite": "SIM model-vs-impl", "scenario": vlib.scenario_text(sc),
                                          "diff": {"line": d[0], "impl": d[1], "model": d[2]}})
            else:
                ctx.validated += 1
        for clause, detail in simmon.monitor(sc, il):
            ctx.monitor_failures.append({"clause": clause, "detail": detail, "scenario": vlib.scenario_text(sc),
                                         "impl": il[:300], "seed": ctx.seed, "suite": "SIM"})
        if implf is not None and sid in implf:
            drop = lambda ls: [l for l in ls if l != "LOG ProcessStateUpdated" and not l.startswith(("STATE ", "PV "))]
            dl = vlib.first_diff(drop(il), drop(implf[sid]))
            if dl is not None:
                ctx.monitor_failures.append({"clause": "C17:log_file_trace",
                                             "detail": "System::with_log_file gives another history than System::new: %s" % (str(dl)[:300],),
                                             "scenario": vlib.scenario_text(sc), "impl": implf[sid][:300], "seed": ctx.seed, "suite": "SIM"})
        if repeat:
            ctx.clauses.update(["C01:in_process_repeat", "C01:cross_process_repeat"])
            if any(l.startswith("REPEAT-DIFFERS") for l in il):
                ctx.monitor_failures.append({"clause": "C01:in_process_repeat",
                                             "detail": [l for l in il if l.startswith("REPEAT-DIFFERS")][0],
                                             "scenario": vlib.scenario_text(sc), "impl": il[:300], "seed": ctx.seed,
                                             "suite": "SIM"})
            d2 = vlib.first_diff(il, impl2.get(sid, []))
            if d2 is not None:
                ctx.monitor_failures.append({"clause": "C01:cross_process_repeat",
                                             "detail": "two OS processes give different histories: %s" % (d2,),
                                             "scenario": vlib.scenario_text(sc), "impl": il[:300], "seed": ctx.seed,
                                             "suite": "SIM"})
        nlog = sum(1 for l in il if l.startswith("LOG"))
        if nlog >= 15 and (feat["drop"] or feat["dupl"] or feat["corrupt"] or feat["crash"] or feat["netops"] or feat["timers"]):
            ctx.nontrivial.add(sc_hash(sc))
        if len(ctx.samples) < 2:
            ctx.samples.append({"scenario": "\n".join(l for l in vlib.scenario_text(sc).split("\n") if not l.startswith("DRAWS")),
                                "impl_observation_head": il[:8]})


def suite_sim_repeat(ctx, can_run_model):
    suite_sim(ctx, can_run_model, repeat=True)


# ---------------------------------------------------------------------------------------------------
# NETSWEEP suite (C12): one cross-node and one same-node send under every combination of rate signs and cuts

def parse_trace_text(line):
    """entries of the |T part of a verbose state line"""
    t = line.split("|T", 1)[1] if "|T" in line else ""
    return [e for e in t.split(";") if e]


def suite_netsweep(ctx, can_run_model):
    from gen_store import PAYLOADS, bstr
    from vlib import f64_bits
    rng = random.Random(ctx.seed * 1000003 + 47)
    scs = []
    meta = {}
    payloads = list(PAYLOADS) + [b'{"x": "\xc3\xa9", "y": "a\\"b"}', b'"a""b"', b'']
    j = 0
    reps = 1 if ctx.tier == "quick" and not ctx.widen else 4
    for _ in range(reps):
      for drop in (0.0, 0.5):
        for dupl in (0.0, 0.5):
            for corr in (0.0, 0.5):
                for cutk, pre in [(c, p) for c in ("none", "dropout_src", "dropin_dst", "link", "reverse_link", "dropin_src",
                                                   "partition", "disconnect_dst", "cut_then_reset", "reverse_then_partition") for p in (False, True)]:
                    pl = rng.choice(payloads)
                    msg = "%s %s" % (bstr(b"A"), bstr(pl))
                    # pre: the node pair has already carried traffic (process 2 on node 0 -> process 1 on node 1) when
                    # the rates / cuts are applied: settings must take effect for LATER sends too
                    lines = ["VERBOSE", "NODE 0 0", "NODE 1 0",
                             "PROC 0 0 1 0 0 1", "ROW 0 2 S 1 %s S 2 %s" % (msg, msg),
                             "PROC 1 1 0 0 0 1", "ROW 1 0"] + \
                            (["PROC 2 0 1 0 0 1", "ROW 2 1 S 1 %s %s" % (bstr(b"PING"), bstr(b"pre"))] if pre
                             else ["PROC 2 0 0 0 0 1", "ROW 2 0"]) + \
                            ["NET 0 0 0 %d %d" % (f64_bits(1.0), f64_bits(1.0))]
                    lines += gen_mc.clock_lines([0.0], 12)
                    in_snapshot = rng.random() < 0.5      # rates set in the simulator before the snapshot
                    rates = []
                    if in_snapshot:
                        lines = [l for l in lines if not l.startswith("NET ")]
                        lines.append("NET %d %d %d %d %d" % (f64_bits(drop), f64_bits(dupl), f64_bits(corr),
                                                             f64_bits(1.0), f64_bits(1.0)))
                    else:
                        if drop: rates.append("DROPRATE %d" % f64_bits(drop))
                        if dupl: rates.append("DUPLRATE %d" % f64_bits(dupl))
                        if corr: rates.append("CORRUPTRATE %d" % f64_bits(corr))
                    cut = {"none": [], "dropout_src": ["DROPOUT 0"], "dropin_dst": ["DROPIN 1"], "link": ["DISABLELINK 0 1"],
                           "reverse_link": ["DISABLELINK 1 0"], "dropin_src": ["DROPIN 0"], "partition": ["PARTITION 1 0 1 1"],
                           "disconnect_dst": ["DISCONNECT 1"], "cut_then_reset": ["DISABLELINK 0 1", "DROPOUT 0", "RESET"],
                           # one direction cut first, then a partition whose FIRST group holds the other end: both directions
                           # of every cross pair must be cut afterwards
                           "reverse_then_partition": ["DISABLELINK 1 0", "PARTITION 1 1 1 0"]}[cutk]
                    if pre:
                        lines.append("CB LOCAL 0 2 %s" % msg)
                    for o in rates + cut:
                        lines.append("CB NET " + o)
                    lines.append("CB LOCAL 0 0 %s" % msg)
                    lines += ["PRED INV NONE", "PRED GOAL NOEVENTS", "PRED PRUNE NONE", "PRED COLLECT NONE",
                              "RUN BFS FULL 0 3000"]
                    sc = ("MC", "ns%d-%d" % (ctx.seed, j), lines)
                    j += 1
                    scs.append(sc)
                    is_cut = cutk in ("dropout_src", "dropin_dst", "link", "partition", "disconnect_dst", "reverse_then_partition")
                    meta[sc[1]] = (drop, dupl, corr, is_cut, pl)
    impl = vlib.run_impl(scs, "ns-impl")
    model = vlib.run_model(scs, "ns-model") if can_run_model else {}
    ctx.clauses.update(["C12:cut_unconditional", "C12:drop_iff_rate", "C12:corrupt_iff_rate", "C12:dup_iff_rate", "C12:corrupted_copies",
                        "C12:copies_bound", "C12:corrupt_once", "C12:same_node", "C12:corrupt_payload"])
    for sc in scs:
        sid = sc[1]
        ctx.evaluations += 1
        il = impl.get(sid, [])
        if can_run_model:
            d = vlib.first_diff(il, model.get(sid, []))
            if d is not None:
                ctx.disagreements.append({"suite": "NETSWEEP model-vs-impl", "scenario": vlib.scenario_text(sc),
                                          "diff": {"line": d[0], "impl": d[1][:300], "model": d[2][:300]}})
            else:
                ctx.validated += 1
        drop, dupl, corr, is_cut, pl = meta[sid]
        def fail(clause, detail):
            ctx.monitor_failures.append({"clause": clause, "detail": detail, "scenario": vlib.scenario_text(sc),
                                         "impl": il[:40], "seed": ctx.seed, "suite": "NETSWEEP"})
        checks = [l for l in il if l.startswith("CHECK")]
        saw = {"drop": False, "corr": False, "dup": False, "corr2": False}
        cpl = simmon.corrupt(pl)
        cross = " 0 1"   # src 0 dst 1
        for l in checks:
            tr = parse_trace_text(l)
            # entries after McStarted
            if "McStarted" in tr:
                tr = tr[tr.index("McStarted") + 1:]
            ev = [e.split()[0] + (":x" if e.endswith(" 0 1") else ":s" if e.endswith(" 0 2") else "") for e in tr]
            n_recv_x = ev.count("McMessageReceived:x")
            n_recv_s = ev.count("McMessageReceived:s")
            n_drop_x = ev.count("McMessageDropped:x")
            n_dup_x = ev.count("McMessageDuplicated:x")
            n_cor_x = ev.count("McMessageCorrupted:x")
            if ev.count("McMessageDropped:s") or ev.count("McMessageDuplicated:s") or ev.count("McMessageCorrupted:s") or n_recv_s > 1:
                fail("C12:same_node", "a message inside a node was dropped, duplicated, corrupted or delivered twice")
            if is_cut:
                if n_recv_x or n_dup_x or n_cor_x or n_drop_x != 1:
                    fail("C12:cut_unconditional", "cut path: expected exactly the unconditional loss, got recv=%d drop=%d dup=%d corrupt=%d" % (n_recv_x, n_drop_x, n_dup_x, n_cor_x))
            else:
                saw["drop"] |= n_drop_x > 0
                saw["corr"] |= n_cor_x > 0
                saw["dup"] |= n_dup_x > 0
                # deliveries of the CORRUPTED payload on this path (the simulator corrupts before it duplicates, so two or
                # three corrupted copies of one send are possible)
                ncd = 0
                for e in tr:
                    if e.startswith("McMessageReceived") and e.endswith(" 0 1"):
                        m1, _ = simmon.parse_msg(e.split(), 1)
                        if m1[1] == cpl and cpl != pl:
                            ncd += 1
                saw["corr2"] |= ncd >= 2
                if n_dup_x > 2 or n_recv_x + n_drop_x > 1 + n_dup_x:
                    fail("C12:copies_bound", "recv=%d drop=%d dup=%d" % (n_recv_x, n_drop_x, n_dup_x))
                if n_cor_x > 1 + n_dup_x:
                    fail("C12:corrupt_once", "%d corruptions for %d copies" % (n_cor_x, 1 + n_dup_x))
                for e in tr:
                    if e.startswith("McMessageCorrupted"):
                        toks = e.split()
                        m1, i1 = simmon.parse_msg(toks, 1)
                        m2, _ = simmon.parse_msg(toks, i1)
                        if m2[0] != m1[0] or m2[1] != simmon.corrupt(m1[1]):
                            fail("C12:corrupt_payload", "corrupted payload is not the canonical corruption of the original")
        res = [l for l in il if l.startswith("RESULT")]
        if not is_cut and res and res[0] == "RESULT OK":
            if saw["drop"] != (drop > 0):
                fail("C12:drop_iff_rate", "loss explored=%s with drop rate %r" % (saw["drop"], drop))
            if saw["corr"] != (corr > 0):
                fail("C12:corrupt_iff_rate", "corruption explored=%s with corruption rate %r" % (saw["corr"], corr))
            if saw["dup"] != (dupl != 0):
                fail("C12:dup_iff_rate", "duplication explored=%s with duplication rate %r" % (saw["dup"], dupl))
            if dupl and corr and cpl != pl and not saw["corr2"]:
                fail("C12:corrupted_copies", "duplication and corruption rates are positive, but no explored path delivers two "
                     "corrupted copies of the message (the simulator corrupts a message before duplicating it)")
        if (drop or dupl or corr) and len(checks) >= 3:
            ctx.nontrivial.add(sc_hash(sc))
        if len(ctx.samples) < 2:
            ctx.samples.append({"scenario": "\n".join(l for l in vlib.scenario_text(sc).split("\n") if not l.startswith("CLOCK")),
                                "states_evaluated": len(checks)})


# ---------------------------------------------------------------------------------------------------
# MC timer-contract suite (C07 model-checking half; C02 "nothing overridden or cancelled is delivered")

def mc_timer_contract(trace_entries):
    """TimerSpec on one model-checked path: returns None or a description of the first violation"""
    pending = {}
    started = False
    for e in trace_entries:
        t = e.split()
        k = t[0]
        if k == "McTimerSet":
            key = (t[1], t[2])
            pending[key] = pending.get(key, 0) + 1      # >1 = an overridden instance is still around (F10)
            if pending[key] > 1:
                pending[key] = 1                        # the contract: the new instance REPLACES the old one
                pending[(key, "overridden")] = pending.get((key, "overridden"), 0) + 1
        elif k == "McTimerCancelled":
            pending.pop((t[1], t[2]), None)
        elif k == "McTimerFired":
            key = (t[1], t[2])
            if pending.get(key, 0) == 0:
                if pending.get((key, "overridden"), 0) > 0:
                    return "overridden", "timer (%s,%s) fired although it was overridden (the contract allows one firing per set)" % key
                return "ghost", "timer (%s,%s) fired although no instance was pending" % key
            pending[key] = 0
    return None


def suite_mc_timers(ctx, can_run_model):
    rng = random.Random(ctx.seed * 1000003 + 53)
    n = ctx.scale(80, 3000)
    scs = []
    meta = {}
    witness = load_corpus("MC")            # known-finding witnesses and minimised failures first
    for j in range(n):
        feat = gen_mc.gen_features(rng)
        feat["timers"] = True
        feat["clock"] = False
        feat["dupl"] = False
        base = gen_mc.gen_timer_base(rng) if j % 5 in (1, 3) else gen_mc.gen_base(rng, feat)
        feat_count(ctx, base["feat"])
        st = rng.choice(["BFS", "DFS"])
        sc = gen_mc.variant(base, "tm%d-%d" % (ctx.seed, j), st, rng.choice(["FULL", "PARTIAL"]), debug=0, repeat=1)
        sc = (sc[0], sc[1], ["VERBOSE"] + sc[2])
        scs.append(sc)
        meta[sc[1]] = base["feat"]
    for w in witness:
        meta[w[1]] = {"override": True, "witness": True}
    scs = witness + scs
    impl = vlib.run_impl(scs, "tm-impl")
    model = vlib.run_model(scs, "tm-model") if can_run_model else {}
    ctx.clauses.update(["C07:mc_timer_contract", "C07:mc_bookkeeping", "C02:overridden_delivered"])
    for sc in scs:
        sid = sc[1]
        ctx.evaluations += 1
        il = impl.get(sid, [])
        if can_run_model:
            d = vlib.first_diff(il, model.get(sid, []))
            if d is not None:
                ctx.disagreements.append({"suite": "MC(verbose) model-vs-impl", "scenario": vlib.scenario_text(sc),
                                          "diff": {"line": d[0], "impl": d[1][:300], "model": d[2][:300]}})
            else:
                ctx.validated += 1
        xtm = [l for l in il if l.startswith("XTM ")]
        if xtm:
            ctx.monitor_failures.append({
                "clause": "C07:mc_bookkeeping",
                "detail": "on an explored state the framework's pending-timer bookkeeping differs from what the process asked "
                          "for by its set_timer / set_timer_once / cancel_timer calls and the firings it saw: %s" % xtm[0],
                "scenario": vlib.scenario_text(sc), "impl": il[:6], "seed": ctx.seed, "suite": "MCTIMERS",
                "kind": "bookkeeping", "feat": meta[sid]})
        nstates = 0
        bad = None
        for l in il:
            if l.startswith("CHECK"):
                nstates += 1
                tr = parse_trace_text(l)
                if "McStarted" in tr:
                    tr = tr[tr.index("McStarted") + 1:]
                v = mc_timer_contract(tr)
                if v is not None and bad is None:
                    bad = v
        if bad is not None:
            for clause in ("C07:mc_timer_contract", "C02:overridden_delivered"):
                ctx.monitor_failures.append({"clause": clause, "detail": bad[1], "kind": bad[0],
                                             "scenario": vlib.scenario_text(sc), "impl": il[:6], "seed": ctx.seed,
                                             "suite": "MCTIMERS", "feat": meta[sid]})
        if nstates >= 6:
            ctx.nontrivial.add(sc_hash(sc))
        ctx.count("states_checked", nstates)


# ---------------------------------------------------------------------------------------------------
# clock-reading programs (known finding F14): witness + random stream, Full vs Disabled

def suite_clock(ctx, can_run_model):
    base_w = [l.rstrip("\n") for l in open(os.path.join(vlib.ROOT, "corpus", "F14-clock.base")) if l.strip()]
    rng = random.Random(ctx.seed * 1000003 + 59)
    bases = [("w", base_w, {"clock": True, "witness": True})]
    for j in range(ctx.scale(12, 400)):
        feat = gen_mc.gen_features(rng)
        feat.update({"clock": True, "stateless": False, "override": False, "dupl": False})
        b = gen_mc.gen_base(rng, feat)
        bases.append(("r%d" % j, b["sys"] + b["cb"] + b["preds"], feat))
    scs = []
    for name, lines, feat in bases:
        lines = [l for l in lines if not l.startswith("PRED PRUNE")] + ["PRED PRUNE DEPTHGT 6"]
        for vm in ("FULL", "DISABLED"):
            scs.append(("MC", "ck%d-%s-%s" % (ctx.seed, name, vm), lines + ["RUN BFS %s 0 %d" % (vm, gen_mc.FUEL)]))
    impl, parsed = mc_run_all(ctx, scs, can_run_model, "ck", with_ref=False)
    ctx.clauses.add("C11:modes_same_states")
    for name, lines, feat in bases:
        a = parsed["ck%d-%s-FULL" % (ctx.seed, name)]
        b = parsed["ck%d-%s-DISABLED" % (ctx.seed, name)]
        if a and b and a[0]["result"] == ["OK"] and b[0]["result"] == ["OK"]:
            if red_set(a[0]) != red_set(b[0]):
                sc = [x for x in scs if x[1] == "ck%d-%s-FULL" % (ctx.seed, name)][0]
                ctx.monitor_failures.append({"clause": "C11:modes_same_states",
                                             "detail": "Full evaluates %d distinct states, Disabled %d (clock-reading program)" % (
                                                 len(red_set(a[0])), len(red_set(b[0]))),
                                             "scenario": vlib.scenario_text(sc), "impl": impl[sc[1]][:6], "seed": ctx.seed,
                                             "suite": "MCCLOCK", "feat": feat})


# ---------------------------------------------------------------------------------------------------
# HANDOFF suite (C04, C15, C09 'source untouched')

def identical_overlap(il):
    """known finding F13 needs two IDENTICAL messages (payload, sender, receiver) in flight together: is there, in the
    simulator's log of this scenario, a MessageSent while an earlier message with the same payload and endpoints may
    still have a copy in flight (conservatively: until three of its copies were received / dropped)?"""
    inflight = {}       # msg id -> [key, fates]
    for l in il:
        if l.startswith("LOG MessageSent "):
            t = l.split()
            mid = int(t[3])
            key = (t[5], t[7], " ".join(t[8:]))
            for (k2, fates) in inflight.values():
                if k2 == key and fates < 3:
                    return True
            inflight[mid] = [key, 0]
        elif l.startswith(("LOG MessageReceived ", "LOG MessageDropped ")):
            t = l.split()
            mid = int(t[3])
            if mid in inflight:
                inflight[mid][1] += 1
    return False


def suite_handoff(ctx, can_run_model):
    rng = random.Random(ctx.seed * 1000003 + 61)
    n = ctx.scale(300, 12000)
    raw = [gen_handoff.gen_scenario(rng, "h%d-%d" % (ctx.seed, j)) for j in range(n)]
    if not ctx.widen:
        # known-finding witnesses and minimised failures first
        for w in load_corpus("HANDOFF"):
            seed = int([l for l in w[2] if l.startswith("SEED")][0].split()[1])
            raw.insert(0, (w, {"witness": w[1], "corrupt": 1.0 if "f13" in w[1] else 0.0, "timers": False, "drop": 0.0, "dupl": 0.0,
                               "rand_delay": False, "override": "f10" in w[1]}, seed))
    scs = fill_draws(raw)
    # twins that never create a checker: the continuation must be identical (C09: the source System is untouched)
    twins = []
    for sc in scs:
        k1, k2 = sc[2].index("SNAPSHOT"), sc[2].index("CONTINUE")
        twins.append(("HANDOFF", sc[1] + "-twin", sc[2][:k1] + sc[2][k2 + 1:]))
    impl = vlib.run_impl(scs, "ho-impl")
    model = vlib.run_model(scs, "ho-model") if can_run_model else {}
    timpl = vlib.run_impl(twins, "ho-twin")
    ctx.clauses.update(["C04:sim_path_explored", "C13:feasible_schedule_explored", "C09:source_untouched", "C15:snapshot_no_panic", "C15:timer_remaining", "C15:crashed_nodes",
                        "C15:inflight_once"])
    recheck = []      # inclusion failures in scenarios with corruption: is corruption really the cause?
    for (sc, tw, (rsc, feat, seed)) in zip(scs, twins, raw):
        sid = sc[1]
        ctx.evaluations += 1
        il = impl.get(sid, [])
        for k, v in feat.items():
            if v:
                ctx.count("feat_" + k)
        if can_run_model:
            d = vlib.first_diff(il, model.get(sid, []))
            if d is not None:
                ctx.disagreements.append({"suite": "HANDOFF model-vs-impl", "scenario": vlib.scenario_text(sc),
                                          "diff": {"line": d[0], "impl": d[1][:300], "model": d[2][:300]}})
            else:
                ctx.validated += 1
        def fail(clause, detail, extra=None):
            mf = {"clause": clause, "detail": detail, "scenario": vlib.scenario_text(sc), "impl": il[:30],
                  "seed": ctx.seed, "suite": "HANDOFF", "feat": feat}
            if extra:
                mf.update(extra)
            ctx.monitor_failures.append(mf)
        if "SNAPSHOT PANIC" in il:
            fail("C15:snapshot_no_panic", "ModelChecker::new panicked")
            continue
        # C15: every pending timer is carried over with exactly its remaining delay (fire time - now, in simulation
        # time: clock skews do not enter), in real firing order
        simt = [l.split()[1:] for l in il if l.startswith("XSIMT ")]
        snapt = [l.split()[1:] for l in il if l.startswith("XSNAPT ")]
        if simt or snapt:
            exp = [(a[0], a[1], vlib.f64_bits(vlib.bits_f64(int(a[2])) - vlib.bits_f64(int(a[3])))) for a in simt]
            got = [(a[0], a[1], int(a[2])) for a in snapt]
            # timers of crashed nodes are cancelled in the simulator already; everything else must match in order
            if exp != got:
                fail("C15:timer_remaining", "pending timers of the simulator (proc, name, fire time - now) %s, timers of the "
                     "snapshot %s" % (exp[:6], got[:6]))
        if "SNAPSHOT" not in il:
            continue
        k = il.index("SNAPSHOT")
        # C15: crashed nodes and in-flight events are carried over
        sim_crashed = set()
        nlive = None
        for l in il[:k]:
            if l.startswith("LOG NodeCrashed"):
                sim_crashed.add(l.split()[3])
            elif l.startswith("LOG NodeRecovered"):
                sim_crashed.discard(l.split()[3])
            elif l.startswith("Q "):
                nlive = int(l.split()[2])
        bef = [l for l in il[k:] if l.startswith("BEFORE ")]
        if bef:
            m = re.search(r"cr=\[([^\]]*)\] ne=(\d+)", bef[0])
            snap_crashed = set(x for x in m.group(1).split(",") if x)
            if snap_crashed != sim_crashed:
                fail("C15:crashed_nodes", "simulator has crashed nodes %s, the snapshot %s" % (sorted(sim_crashed), sorted(snap_crashed)))
            if nlive is not None and not sim_crashed and int(m.group(2)) != nlive:
                fail("C15:inflight_once", "%d live events in the simulator queue, %d pending events in the snapshot" % (nlive, int(m.group(2))))
            if nlive is not None and int(m.group(2)) > nlive:
                fail("C15:inflight_once", "more pending events in the snapshot (%s) than live events in the simulator (%d)" % (m.group(2), nlive))
        # C09: what the simulator does after the checker ran = what it does when no checker was ever created
        cont = [l for l in il[k:] if l.split(" ")[0] in ("OP", "RET", "LOG", "STATE", "Q", "CNT", "NC", "PV")]
        # drop the MC part (up to AFTERMODE)
        if any(l.startswith("AFTERMODE") for l in il[k:]):
            kk = k + [i for i, l in enumerate(il[k:]) if l.startswith("AFTERMODE")][-1] + 1
            cont = [l for l in il[kk:] if l.split(" ")[0] in ("OP", "RET", "LOG", "STATE", "Q", "CNT", "NC", "PV")]
        tl = timpl.get(tw[1], [])
        # the twin's continuation: lines after the prefix (same number of prefix ops)
        npre = sum(1 for l in sc[2][:sc[2].index("SNAPSHOT")] if l.startswith("OP "))
        ops_seen = 0
        tcont = []
        for l in tl:
            if l.startswith("OP "):
                ops_seen += 1
            if ops_seen > npre and l.split(" ")[0] in ("OP", "RET", "LOG", "STATE", "Q", "CNT", "NC", "PV"):
                tcont.append(l)
        strip = lambda ls: [re.sub(r"^OP \d+ ", "OP ", l) for l in ls]
        if strip(vlib.comparable(cont)) != strip(vlib.comparable(tcont)):
            fail("C09:source_untouched", "the simulation continues differently after a model-checking run than without one")
        # C04: every process-visible state the simulation passes through was visited by the checker
        res = [l for l in il if l.startswith("RESULT")]
        if res and res[0] == "RESULT OK":
            pvs = set(KV_PV.search(l).group(1) for l in il if l.startswith("CHECK"))
            after = [l for l in cont if l.startswith("PV ")]
            miss = [l for l in after if l.split()[1] not in pvs]
            ctx.count("inclusion_checked")
            if miss:
                fail("C04:sim_path_explored", "%d of %d process-visible states of the continued simulation were not visited by the checker" % (len(miss), len(after)))
                if feat.get("corrupt"):
                    ctx.monitor_failures[-1]["identical_overlap"] = identical_overlap(il)
                    recheck.append((sc, len(ctx.monitor_failures) - 1))
                if not feat.get("corrupt"):
                    fail("C13:feasible_schedule_explored", "the schedule the timed simulator performs (%d of %d process-visible "
                         "states) is not among the explored ones" % (len(miss), len(after)))
        elif res and res[0] == "RESULT PANIC":
            # a checker that panics in the middle of the exploration has explored only what it evaluated before
            # (#CHECK lines): the simulator's continuation must still be among it
            pvs = set(KV_PV.search(l).group(1) for l in il if l.startswith("#CHECK") and KV_PV.search(l))
            after = [l for l in cont if l.startswith("PV ")]
            miss = [l for l in after if l.split()[1] not in pvs]
            ctx.count("inclusion_checked_after_panic")
            if miss and not feat.get("corrupt"):
                fail("C04:sim_path_explored", "the exploration panicked; %d of %d process-visible states of the continued "
                     "simulation had not been visited before" % (len(miss), len(after)))
        if res and res[0] == "RESULT OK":
            nchecks = sum(1 for l in il if l.startswith("CHECK"))
            if nchecks >= 6 and len(after) >= 3 and (feat["timers"] or feat["drop"] or feat["dupl"] or feat["corrupt"] or feat["rand_delay"]):
                ctx.nontrivial.add(sc_hash(sc))
        if len(ctx.samples) < 2:
            ctx.samples.append({"scenario": "\n".join(l for l in vlib.scenario_text(sc).split("\n") if not l.startswith(("DRAWS", "CLOCK"))),
                                "impl_observation_head": il[:6]})

    # known finding F13 needs corruption: the same scenario with the corruption rate set to 0 consumes the same draws
    # (the corruption draw is made regardless of the rate), so the schedule is unchanged; if the inclusion still fails
    # there, corruption is not the cause and the failure is NOT matched by the F13 class
    if recheck:
        variants = []
        for (sc, idx) in recheck:
            lines = [("OP NET CORRUPTRATE 0" if l.startswith("OP NET CORRUPTRATE ") else l) for l in sc[2]]
            variants.append(("HANDOFF", sc[1] + "-nocorrupt", lines))
        vimpl = vlib.run_impl(variants, "ho-nocorrupt")
        for (v, (sc, idx)) in zip(variants, recheck):
            vl = vimpl.get(v[1], [])
            res = [l for l in vl if l.startswith("RESULT")]
            still = False
            if res and res[0] == "RESULT OK" and "SNAPSHOT" in vl:
                k = vl.index("SNAPSHOT")
                pvs = set(KV_PV.search(l).group(1) for l in vl if l.startswith("CHECK"))
                kk = k + max([i for i, l in enumerate(vl[k:]) if l.startswith("AFTERMODE")] + [0]) + 1
                after = [l for l in vl[kk:] if l.startswith("PV ")]
                still = any(l.split()[1] not in pvs for l in after)
            ctx.monitor_failures[idx]["corruption_independent"] = still
            ctx.count("f13_rechecked")


KV_PV = re.compile(r"pv=(\d+)")

def inverted_timers(il):
    """In the simulator prefix of a hand-off: two timers of one process, both pending at the snapshot, where the one
    set LATER fires strictly EARLIER (so insertion order and real firing order disagree)."""
    import struct
    f = lambda b: struct.unpack("<d", struct.pack("<Q", int(b)))[0]
    pend = {}
    order = []
    if "SNAPSHOT" not in il:
        return False
    for l in il[:il.index("SNAPSHOT")]:
        t = l.split()
        if l.startswith("LOG TimerSet "):
            # LOG TimerSet <time> <id> <name> <node> <proc> <delay>
            pend[t[3]] = (t[6], f(t[2]) + f(t[7]), len(order), t[5])
            order.append(t[3])
        elif l.startswith(("LOG TimerFired ", "LOG TimerCancelled ")):
            pend.pop(t[3], None)
        elif l.startswith("LOG NodeCrashed"):
            # only the timers of the crashed node die (LOG NodeCrashed <time> <node>)
            pend = {k: v for k, v in pend.items() if v[3] != t[3]}
    items = sorted(pend.values(), key=lambda x: x[2])
    for i in range(len(items)):
        for j in range(i + 1, len(items)):
            if items[i][0] == items[j][0] and items[j][1] < items[i][1]:
                return True
    return False


F15_WITNESS = {
    "sysl": [
        "NODE 0 0", "NODE 1 0",
        "PROC 0 1 1 0 0 3", "ROW 0 0 ", "ROW 0 0 ",
        "ROW 0 2 S 0 1 65 5 112 108 97 105 110 S 0 1 65 29 123 34 97 34 58 32 34 34 44 32 34 98 34 58 32 34 120 121 34 44 32 34 99 34 58 32 34 34 125",
        "PROC 1 1 2 0 0 3",
        "ROW 1 2 S 1 1 65 29 123 34 97 34 58 32 34 34 44 32 34 98 34 58 32 34 120 121 34 44 32 34 99 34 58 32 34 34 125 T 1 4611686018427387904 1",
        "ROW 1 1 S 1 1 65 29 123 34 97 34 58 32 34 34 44 32 34 98 34 58 32 34 120 121 34 44 32 34 99 34 58 32 34 34 125",
        "ROW 1 3 T 1 4607182418800017408 1 S 0 1 65 5 112 108 97 105 110 T 0 0 1",
        "NET 0 0 0 4607182418800017408 4611686018427387904",
    ],
    "placement": [0, 1],
    "ops": [["LOCAL", 1, "1 65 5 112 108 97 105 110"], ["LOCAL", 1, "1 65 5 112 108 97 105 110"]],
}


# ---------------------------------------------------------------------------------------------------
# C15 "routes agree": operations performed in the simulator before the snapshot vs in the preliminary callback

def suite_routes(ctx, can_run_model):
    from vlib import f64_bits
    rng = random.Random(ctx.seed * 1000003 + 67)
    n = ctx.scale(120, 5000)
    pairs = []
    scs = []

    def route_pair(tag, sysl, placement, ops, feat):
        preds = ["PRED INV NONE", "PRED GOAL NOEVENTS", "PRED PRUNE NONE", "PRED COLLECT NONE"]
        run = "RUN BFS FULL 0 %d" % gen_mc.FUEL
        # route (b): everything in the callback of a checker created from the untouched system
        cb = []
        for o in ops:
            if o[0] == "NET":
                cb.append("CB NET " + o[1])
            elif o[0] == "LOCAL":
                cb.append("CB LOCAL %d %d %s" % (placement[o[1]], o[1], o[2]))
            else:
                cb.append("CB CRASH %d" % o[1])
        sc_b = ("MC", "rb" + tag, list(sysl) + cb + preds + [run])
        # route (a): the same operations in the simulator, then the snapshot
        sim = ["SEED 1"]
        for l in sysl:
            t = l.split()
            if t[0] == "PROC":
                sim.append("PROG %s %s %s %s %s" % (t[1], t[3], t[4], t[5], t[6]))
            elif t[0] == "ROW":
                sim.append(l)
        sim.append("DRAWS")
        for l in sysl:
            t = l.split()
            if t[0] == "NODE":
                sim.append("OP ADDNODE %s" % t[1])
        for l in sysl:
            t = l.split()
            if t[0] == "PROC":
                sim.append("OP ADDPROC %s %s" % (t[1], t[2]))
        netl = [l for l in sysl if l.startswith("NET ")][0].split()
        sim.append("OP NET DELAYS %s %s" % (netl[4], netl[5]))
        for o in ops:
            if o[0] == "NET":
                sim.append("OP NET " + o[1])
            elif o[0] == "LOCAL":
                sim.append("OP LOCAL %d %s" % (o[1], o[2]))
            else:
                sim.append("OP CRASH %d" % o[1])
        clock = [l for l in sysl if l.startswith("CLOCK")]
        sc_a = ("HANDOFF", "ra" + tag, sim + ["SNAPSHOT"] + clock + preds + [run, "CONTINUE"])
        pairs.append((sc_a, sc_b, feat))
        scs.extend([sc_a, sc_b])

    if not ctx.widen:
        # witness of the known finding F15 (timers of one process set at one instant in decreasing-delay order)
        route_pair("-f15-witness", F15_WITNESS["sysl"], F15_WITNESS["placement"],
                   [tuple(o) for o in F15_WITNESS["ops"]], {"witness": "f15"})
    for j in range(n):
        feat = gen_mc.gen_features(rng)
        feat.update({"clock": False, "drop": False, "dupl": False, "corrupt": False, "stateless": False, "mf": False,
                     "override": False})
        sysl, nnodes, nprocs, placement = gen_mc.gen_system(rng, feat)
        ops = []
        crashed = set()
        if rng.random() < 0.4:
            ops.append(("NET", gen_mc.gen_netop(rng, nnodes)))
        for _ in range(rng.choice([1, 2, 2, 3])):
            p = rng.randrange(nprocs)
            if placement[p] not in crashed:
                ops.append(("LOCAL", p, gen_mc.gen_msg(rng)))
            if rng.random() < 0.15:
                nd = rng.randrange(nnodes)
                crashed.add(nd)
                ops.append(("CRASH", nd))
        ops = [o for o in ops if not (o[0] == "NET" and o[1].split()[0] in ("DROPRATE", "DUPLRATE", "CORRUPTRATE", "RESET"))]
        route_pair("%d-%d" % (ctx.seed, j), sysl, placement, ops, feat)
    raw = [((s[0], s[1], s[2]), {}, 1) for s in scs]
    scs2 = fill_draws(raw)
    impl = vlib.run_impl(scs2, "rt-impl")
    model = vlib.run_model(scs2, "rt-model") if can_run_model else {}
    ctx.clauses.add("C15:routes_agree")
    by = {s[1]: s for s in scs2}
    for sc_a, sc_b, feat in pairs:
        for sc in (by[sc_a[1]], by[sc_b[1]]):
            ctx.evaluations += 1
            if can_run_model:
                d = vlib.first_diff(impl.get(sc[1], []), model.get(sc[1], []))
                if d is not None:
                    ctx.disagreements.append({"suite": "ROUTES model-vs-impl", "scenario": vlib.scenario_text(sc),
                                              "diff": {"line": d[0], "impl": d[1][:300], "model": d[2][:300]}})
                else:
                    ctx.validated += 1
        ra = parse_mc(impl.get(sc_a[1], []))
        rb = parse_mc(impl.get(sc_b[1], []))
        if ra and rb and ra[0]["result"] and rb[0]["result"] and ra[0]["result"][0] == "OK" and rb[0]["result"][0] == "OK":
            pa = set(c["pv"] for c in ra[0]["checks"])
            pb = set(c["pv"] for c in rb[0]["checks"])
            if pa != pb:
                ctx.monitor_failures.append({"clause": "C15:routes_agree",
                                             "detail": "snapshot route visits %d process-visible states, callback route %d (%d differ)" % (
                                                 len(pa), len(pb), len(pa ^ pb)),
                                             "scenario": vlib.scenario_text(by[sc_a[1]]), "impl": impl.get(sc_a[1], [])[:20],
                                             "callback_route_scenario": vlib.scenario_text(by[sc_b[1]]),
                                             "snapshot_subset_of_callback": pa < pb,
                                             "inverted_timers": inverted_timers(impl.get(sc_a[1], [])),
                                             "seed": ctx.seed, "suite": "ROUTES", "feat": feat})
            if len(pa) >= 4:
                ctx.nontrivial.add(sc_hash(sc_a))
        elif ra and rb and ra[0]["result"] and rb[0]["result"] and ra[0]["result"][0] != rb[0]["result"][0]:
            if "FUEL" not in (ra[0]["result"][0], rb[0]["result"][0]):
                ctx.monitor_failures.append({"clause": "C15:routes_agree",
                                             "detail": "snapshot route %s, callback route %s" % (ra[0]["result"][0], rb[0]["result"][0]),
                                             "scenario": vlib.scenario_text(by[sc_a[1]]), "impl": impl.get(sc_a[1], [])[:20],
                                             "seed": ctx.seed, "suite": "ROUTES", "feat": feat})



def suite_handoff_repeat(ctx, can_run_model):
    """C01 across the hand-off: the same simulated prefix + ModelChecker::new + exploration, twice in one OS process
    (fresh hash maps) and in a second OS process, must give identical snapshots (incl. the ids the pending events
    get), the same order of predicate evaluations and the same results."""
    rng = random.Random(ctx.seed * 1000003 + 83)
    n = ctx.scale(60, 3000)
    raw = [gen_handoff.gen_scenario(rng, "hr%d-%d" % (ctx.seed, j)) for j in range(n)]
    scs = fill_draws(raw)
    impl = vlib.run_impl(scs, "hr-impl", env={"ASV_REPEAT": "1"})
    impl2 = vlib.run_impl(scs, "hr-impl2")
    ctx.clauses.update(["C01:handoff_in_process_repeat", "C01:handoff_cross_process_repeat"])
    for sc in scs:
        sid = sc[1]
        ctx.evaluations += 1
        il = impl.get(sid, [])
        rd = [l for l in il if l.startswith("REPEAT-DIFFERS")]
        if rd:
            ctx.monitor_failures.append({"clause": "C01:handoff_in_process_repeat", "detail": rd[0][:400],
                                         "scenario": vlib.scenario_text(sc), "impl": il[:20], "seed": ctx.seed, "suite": "HANDOFFREPEAT"})
        d2 = vlib.first_diff(il, impl2.get(sid, []))
        if d2 is not None:
            ctx.monitor_failures.append({"clause": "C01:handoff_cross_process_repeat",
                                         "detail": "two OS processes give different results: %s" % (str(d2)[:400],),
                                         "scenario": vlib.scenario_text(sc), "impl": il[:20], "seed": ctx.seed, "suite": "HANDOFFREPEAT"})
        bef = [l for l in il if l.startswith("BEFORE ")]
        if bef:
            m = re.search(r" ne=(\d+)", bef[0])
            if m and int(m.group(1)) >= 2:
                ctx.count("handoff_repeat_pending_ge2")
                ctx.nontrivial.add(sc_hash(sc))


def suite_pred_sweep(ctx, can_run_model):
    """C19: small systematic systems whose processes 0 and 1 fill their local outboxes with every ordered pair / triple
    over {type A, type PING} x {the two payloads the battery's received_messages instances expect, one other}: equal
    data under different types, duplicates, unexpected and missing messages all occur; every state of the exploration
    is evaluated by the real predicates and by the specification-proved model (monitor C19:predicate_value)."""
    from gen_store import bstr
    import itertools
    rng = random.Random(ctx.seed * 1000003 + 89)
    tips = [b"A", b"PING"]
    datas = [b"plain", b'{"k": "v"}', b'{"n": 1}']
    msgs = ["%s %s" % (bstr(t), bstr(d)) for t in tips for d in datas]
    combos = list(itertools.permutations(range(len(msgs)), 2)) + [(i, i) for i in range(len(msgs))]
    combos += [tuple(rng.sample(range(len(msgs)), 3)) for _ in range(12)]
    if ctx.tier == "quick" and not ctx.widen:
        rng.shuffle(combos)
        combos = combos[:30]
    scs = []
    for j, combo in enumerate(combos):
        lines = ["NODE 0 0", "NODE 1 0"]
        # process 0 writes the whole combination to its outbox in one handler call and pokes process 1, which writes
        # the reversed combination to its own outbox
        acts0 = ["L %s" % msgs[m] for m in combo] + ["S 1 %s" % msgs[combo[0]]]
        lines.append("PROC 0 0 1 0 0 1")
        lines.append("ROW 0 %d %s" % (len(acts0), " ".join(acts0)))
        acts1 = ["L %s" % msgs[m] for m in reversed(combo)]
        lines.append("PROC 1 1 1 0 0 1")
        lines.append("ROW 1 %d %s" % (len(acts1), " ".join(acts1)))
        lines.append("NET 0 0 0 %d %d" % (vlib.f64_bits(1.0), vlib.f64_bits(1.0)))
        lines += gen_mc.clock_lines([0.0], 16)
        lines += ["PRED INV NONE", "PRED GOAL NOEVENTS", "PRED PRUNE NONE", "PRED COLLECT NONE"]
        lines.append("CB LOCAL 0 0 %s" % msgs[combo[0]])
        lines.append("RUN BFS FULL 0 %d" % gen_mc.FUEL)
        scs.append(("MC", "ps%d-%d" % (ctx.seed, j), lines))
    # three interchangeable workers (processes 0, 1, 2) each with one message in flight to a sink, and each arming a
    # timer: the first mentions of the listed processes occur in every order along the explored paths (symmetry-
    # breaking prune proc_permutations, evaluated by ONE predicate instance on consecutive states)
    for k, (st, vm) in enumerate([("BFS", "FULL"), ("DFS", "FULL"), ("BFS", "DISABLED"), ("DFS", "PARTIAL")]):
        lines = ["NODE 0 0", "NODE 1 0"]
        for w in range(3):
            lines.append("PROC %d %d 1 0 0 1" % (w, w % 2))
            lines.append("ROW %d 2 S 3 %s T 0 %d 1" % (w, msgs[w % len(msgs)], vlib.f64_bits(1.0 + w)))
        lines.append("PROC 3 1 3 0 0 1")
        lines.append("ROW 3 1 L %s" % msgs[0])
        lines.append("NET 0 0 0 %d %d" % (vlib.f64_bits(1.0), vlib.f64_bits(1.0)))
        lines += gen_mc.clock_lines([0.0], 16)
        lines += ["PRED INV NONE", "PRED GOAL NOEVENTS", "PRED PRUNE DEPTHGT 6" if vm == "DISABLED" else "PRED PRUNE NONE", "PRED COLLECT NONE"]
        for w in range(3):
            lines.append("CB LOCAL %d %d %s" % (w % 2, w, msgs[1]))
        lines.append("RUN %s %s 0 %d" % (st, vm, gen_mc.FUEL))
        scs.append(("MC", "pw%d-%d" % (ctx.seed, k), lines))
    impl, parsed = mc_run_all(ctx, scs, can_run_model, "ps", with_ref=False)
    for sc in scs:
        runs = parsed[sc[1]]
        if runs and len(runs[0]["checks"]) >= 2:
            ctx.nontrivial.add(sc_hash(sc))


def suite_mc_rand_repeat(ctx, can_run_model):
    """C01, implementation only: programs that draw ctx.rand() in model checking (the values are a function of the
    state hash; the model does not compute them).  The same exploration by two ModelChecker instances in one OS
    process and by a second OS process must hand the processes the same values (recorded in their histories)."""
    import re as _re
    rng = random.Random(ctx.seed * 1000003 + 79)
    n = ctx.scale(80, 3000)
    scs = []
    for j in range(n):
        feat = gen_mc.gen_features(rng)
        feat.update({"stateless": False, "clock": False})
        base = gen_mc.gen_base(rng, feat)
        st = rng.choice(["BFS", "DFS"])
        vm = rng.choice(["FULL", "PARTIAL"])
        sc = gen_mc.variant(base, "rr%d-%d" % (ctx.seed, j), st, vm, debug=0, repeat=1)
        lines = []
        for l in sc[2]:
            t = l.split()
            if t[0] == "PROC":
                t[5] = str(rng.choice([1, 1, 2]))          # ndraws
                l = " ".join(t)
            lines.append(l)
        scs.append((sc[0], sc[1], lines))
    impl = vlib.run_impl(scs, "rr-impl", env={"ASV_REPEAT": "1"})
    impl2 = vlib.run_impl(scs, "rr-impl2")
    ctx.clauses.update(["C01:rand_in_process_repeat", "C01:rand_cross_process_repeat"])
    for sc in scs:
        sid = sc[1]
        ctx.evaluations += 1
        il = impl.get(sid, [])
        nodes = sum(1 for l in sc[2] if l.startswith("NODE "))
        ctx.count("rand_nodes_%d" % nodes)
        rd = [l for l in il if l.startswith("REPEAT-DIFFERS")]
        if rd:
            ctx.monitor_failures.append({"clause": "C01:rand_in_process_repeat", "detail": rd[0][:400],
                                         "scenario": vlib.scenario_text(sc), "impl": il[:20], "seed": ctx.seed, "suite": "MCRAND"})
        d2 = vlib.first_diff(il, impl2.get(sid, []))
        if d2 is not None:
            ctx.monitor_failures.append({"clause": "C01:rand_cross_process_repeat",
                                         "detail": "two OS processes give different results: %s" % (str(d2)[:400],),
                                         "scenario": vlib.scenario_text(sc), "impl": il[:20], "seed": ctx.seed, "suite": "MCRAND"})
        nchecks = sum(1 for l in il if l.startswith("CHECK"))
        if nchecks >= 6 and nodes >= 2:
            ctx.nontrivial.add(sc_hash(sc))

# ---------------------------------------------------------------------------------------------------
# PYTWIN suite (C18): the same script with Rust processes (issuing grouped by kind) and with Python processes

PY_PAYLOADS = [b'{"k": "v"}', b'{"n": 1}', b'{"x": [1, 2]}', b'{"a": {"b": "c"}}']


def suite_pytwin(ctx, can_run_model):
    rng = random.Random(ctx.seed * 1000003 + 71)
    n = ctx.scale(60, 1500)
    gen_mc.PAYLOADS_OVERRIDE = PY_PAYLOADS
    try:
        raw = []
        for j in range(n):
            (sc, feat, seed) = gen_handoff.gen_scenario(rng, "py%d-%d" % (ctx.seed, j), clock_free=False)
            lines = [l for l in sc[2]]
            # Python processes cannot draw from the simulation's generator: draw-free programs only
            # half of the scenarios use the Python twin with its own save/restore (restores its containers in place)
            if j % 2 == 1:
                lines = ["PYOWN"] + lines
            raw.append((("PYTWIN", sc[1], lines), feat, seed))
        if not ctx.widen:
            for w in load_corpus("PYTWIN"):      # witnesses of fixed findings and minimised failures first
                sd = int([l for l in w[2] if l.startswith("SEED")][0].split()[1])
                raw.insert(0, (("PYTWIN", w[1], [("DRAWS" if l.startswith("DRAWS") else l) for l in w[2]]), {"witness": w[1]}, sd))
        # exception scenarios: the Python twin raises at its k-th invocation: the framework must stop with a handler error
        exc = []
        for j in range(max(4, n // 10)):
            (sc, feat, seed) = gen_handoff.gen_scenario(rng, "pyx%d-%d" % (ctx.seed, j), clock_free=False)
            k = sc[2].index("SNAPSHOT")
            lines = ["RAISE %d %d" % (rng.randrange(2), rng.choice([1, 1, 2]))] + sc[2][:k] + ["OP UNTILNOEVENTS"]
            exc.append((("PYTWIN", sc[1], lines), feat, seed))
    finally:
        gen_mc.PAYLOADS_OVERRIDE = None
    scs = fill_draws(raw + exc)
    # the same scripts with the checker created at the same point but RUN only after the rest of the simulation: a
    # checker that shares nothing with the System it was created from reports exactly the same, and so does the System
    late = [("PYTWIN", sc[1] + "-late", list(sc[2]) + ["LATEMC"]) for sc in scs[:len(raw)] if "CONTINUE" in sc[2]]
    impl = vlib.run_impl(scs + late, "py-impl", shards=8)
    ctx.clauses.update(["C18:twin_identical", "C18:exception_surfaces", "C18:source_untouched", "C18:state_roundtrip",
                        "C18:checker_independent_of_source", "C09:python_source_untouched",
                        "C09:python_checker_independent_of_source"])
    for idx, sc in enumerate(scs):
        sid = sc[1]
        ctx.evaluations += 1
        il = impl.get(sid, [])
        def fail(clause, detail):
            ctx.monitor_failures.append({"clause": clause, "detail": detail, "scenario": vlib.scenario_text(sc),
                                         "impl": il[:40], "seed": ctx.seed, "suite": "PYTWIN"})
            # the same observation decides C09 for Python programs (checker and source System are independent)
            alias = {"C18:source_untouched": "C09:python_source_untouched",
                     "C18:checker_independent_of_source": "C09:python_checker_independent_of_source"}.get(clause)
            if alias:
                ctx.monitor_failures.append({"clause": alias, "detail": detail, "scenario": vlib.scenario_text(sc),
                                             "impl": il[:40], "seed": ctx.seed, "suite": "PYTWIN"})
        if "TWIN rust" not in il or "TWIN python" not in il:
            fail("C18:twin_identical", "harness produced no twin output: %s" % il[:3])
            continue
        k = il.index("TWIN python")
        rust, py = il[1:k], il[k + 1:]
        is_exc = idx >= len(raw)
        if is_exc:
            # the Rust twin does not raise; the Python twin must stop with a handler error (a panic of the framework)
            # exactly when its k-th invocation happens, if it happens at all
            hist_calls = sum(1 for l in rust if l.startswith("LOG MessageReceived") or l.startswith("LOG LocalMessageReceived") or l.startswith("LOG TimerFired"))
            if "PANIC" in py or "TWINPANIC" in py:
                ctx.count("python_exceptions_surfaced")
                ctx.nontrivial.add(sc_hash(sc))
            else:
                # legitimate only if the process never reached that invocation: then both twins agree completely
                core = lambda ls: [l for l in ls if not l.startswith(("ROUNDTRIP", "SRCSTATE"))]
                if core(rust) != core(py):
                    fail("C18:exception_surfaces", "the Python process raised but the run continued differently without a handler error")
            continue
        rt = [l for l in py if l.startswith("ROUNDTRIP")]
        if rt and rt[0] != "ROUNDTRIP same":
            fail("C18:state_roundtrip", "saving and restoring a Python process changed its state")
        ss = [l for l in py if l.startswith("SRCSTATE")]
        if ss and ss[0] != "SRCSTATE same":
            fail("C18:source_untouched", "running the checker changed the state of the source Python processes")
        a = [l for l in rust if not l.startswith(("ROUNDTRIP", "SRCSTATE"))]
        b = [l for l in py if not l.startswith(("ROUNDTRIP", "SRCSTATE"))]
        d = vlib.first_diff(a, b)
        if d is not None:
            fail("C18:twin_identical", "Rust twin and Python twin differ at line %d: %s / %s" % (d[0], d[1][:200], d[2][:200]))
        if "CONTINUE" in sc[2]:
            ll = impl.get(sid + "-late", [])
            ctx.evaluations += 1
            d = vlib.first_diff(il, ll)
            if d is not None:
                fail("C18:checker_independent_of_source",
                     "running the checker after the rest of the simulation instead of before it changed the output at line %d: %s / %s"
                     % (d[0], d[1][:200], d[2][:200]))
            else:
                ctx.count("late_checker_runs_identical")
        nlog = sum(1 for l in rust if l.startswith(("LOG", "CHECK")))
        if nlog >= 12:
            ctx.nontrivial.add(sc_hash(sc))
        if len(ctx.samples) < 2:
            ctx.samples.append({"scenario": "\n".join(l for l in vlib.scenario_text(sc).split("\n") if not l.startswith(("DRAWS", "CLOCK"))),
                                "impl_observation_head": il[:8]})
    ctx.validated += 0


# ---------------------------------------------------------------------------------------------------
# C01 for model checking: the same exploration twice in one OS process (fresh hash maps) and in a second OS process

def suite_mc_repeat(ctx, can_run_model):
    rng = random.Random(ctx.seed * 1000003 + 73)
    n = ctx.scale(120, 5000)
    scs = []
    for j in range(n):
        feat = gen_mc.gen_features(rng)
        # what makes hash order visible: several processes per node with pending events at a crash, several start
        # states of equal depth with a shared cache
        feat["crash"] = rng.random() < 0.5
        base = gen_mc.gen_base(rng, feat)
        feat_count(ctx, base["feat"])
        st = rng.choice(["BFS", "DFS"])
        vm = rng.choice(["FULL", "PARTIAL", "DISABLED"])
        if rng.random() < 0.5:
            scs.append(gen_mc.staged(rng, base, "rp%d-%d" % (ctx.seed, j), st, "FULL" if vm == "DISABLED" else vm, debug=1))
        else:
            scs.append(gen_mc.variant(base, "rp%d-%d" % (ctx.seed, j), st, vm, debug=1, repeat=1,
                                      depth_prune=5 if vm == "DISABLED" else None))
    if not ctx.widen:
        # minimised past failures first, several copies each (a hash-order dependence shows only in some runs)
        for w in load_corpus("MCREPEAT"):
            for k in range(4):
                scs.insert(0, ("MC", "%s-%d" % (w[1], k), w[2]))
    impl = vlib.run_impl(scs, "rp-impl", env={"ASV_REPEAT": "1"})
    impl2 = vlib.run_impl(scs, "rp-impl2")
    model = vlib.run_model(scs, "rp-model") if can_run_model else {}
    ctx.clauses.update(["C01:in_process_repeat", "C01:cross_process_repeat"])
    for sc in scs:
        sid = sc[1]
        ctx.evaluations += 1
        il = impl.get(sid, [])
        if can_run_model:
            d = vlib.first_diff(il, model.get(sid, []))
            if d is not None:
                ctx.disagreements.append({"suite": "MC model-vs-impl", "scenario": vlib.scenario_text(sc),
                                          "diff": {"line": d[0], "impl": d[1][:300], "model": d[2][:300]}})
            else:
                ctx.validated += 1
        rd = [l for l in il if l.startswith("REPEAT-DIFFERS")]
        if rd:
            ctx.monitor_failures.append({"clause": "C01:in_process_repeat", "detail": rd[0][:400],
                                         "scenario": vlib.scenario_text(sc), "impl": il[:20], "seed": ctx.seed, "suite": "MCREPEAT"})
        d2 = vlib.first_diff(il, impl2.get(sid, []))
        if d2 is not None:
            ctx.monitor_failures.append({"clause": "C01:cross_process_repeat",
                                         "detail": "two OS processes give different results: %s" % (str(d2)[:400],),
                                         "scenario": vlib.scenario_text(sc), "impl": il[:20], "seed": ctx.seed, "suite": "MCREPEAT"})
        runs = parse_mc(il)
        multi_proc_crash = any(l.startswith("CB CRASH") for l in sc[2])
        starts = len(runs) == 2 and runs[0]["collected"] and len(runs[0]["collected"]) >= 2
        if multi_proc_crash or starts:
            ctx.nontrivial.add(sc_hash(sc))


# ---------------------------------------------------------------------------------------------------
# staged runs under Full vs Disabled (C11 across stage boundaries: start states that differ only in parts the
# equality must cover, e.g. what a node did before it was crashed in the stage-2 callback)

def suite_mc_staged_modes(ctx, can_run_model):
    rng = random.Random(ctx.seed * 1000003 + 79)
    n = ctx.scale(60, 2500)
    scs = []
    groups = []
    for j in range(n):
        feat = gen_mc.gen_features(rng)
        feat.update({"clock": False, "stateless": False, "override": False})
        base = gen_mc.gen_base(rng, feat)
        st = rng.choice(["BFS", "DFS"])
        srng = random.Random(rng.randrange(1 << 30))
        g = {}
        for vm in ("FULL", "DISABLED"):
            sc = gen_mc.staged(random.Random(srng.getstate()[1][0]), base, "sm%d-%d-%s" % (ctx.seed, j, vm), st, vm, debug=0)
            # a common depth bound keeps the Disabled walks finite; both modes get the same predicates
            lines = [l for l in sc[2] if not l.startswith("PRED PRUNE")]
            k = [i for i, l in enumerate(lines) if l.startswith("RUN ")][0]
            lines = lines[:k] + ["PRED PRUNE DEPTHGT 5"] + lines[k:]
            g[vm] = ("MC", sc[1], lines)
            scs.append(g[vm])
        groups.append((base, g))
    impl, parsed = mc_run_all(ctx, scs, can_run_model, "sm", with_ref=False)
    ctx.clauses.update(["C11:modes_same_states", "C11:modes_same_verdict"])
    for base, g in groups:
        a, b = parsed[g["FULL"][1]], parsed[g["DISABLED"][1]]
        if len(a) == 2 and len(b) == 2 and all(r["result"] and r["result"][0] in ("OK", "ERR") for r in a + b):
            for k in (0, 1):
                if a[k]["result"][0] != b[k]["result"][0]:
                    ctx.monitor_failures.append({"clause": "C11:modes_same_verdict",
                                                 "detail": "stage %d: Full %s, Disabled %s" % (k + 1, a[k]["result"][0], b[k]["result"][0]),
                                                 "scenario": vlib.scenario_text(g["FULL"]), "impl": impl[g["FULL"][1]][:10],
                                                 "seed": ctx.seed, "suite": "MCSTAGEDMODES", "feat": base["feat"]})
                elif a[k]["result"][0] == "OK":
                    # the depth bound is the only predicate that is not a function of the compared state: compare the
                    # states strictly below it
                    sa = set(c["eqp"] for c in a[k]["checks"] if int(c["d"]) - int(a[k]["before"]["d"]) < 3)
                    sb = set(c["eqp"] for c in b[k]["checks"] if int(c["d"]) - int(b[k]["before"]["d"]) < 3)
                    if k == 0 and sa != sb:
                        ctx.monitor_failures.append({"clause": "C11:modes_same_states",
                                                     "detail": "stage %d: Full evaluates %d, Disabled %d distinct shallow states" % (k + 1, len(sa), len(sb)),
                                                     "scenario": vlib.scenario_text(g["FULL"]), "impl": impl[g["FULL"][1]][:10],
                                                     "seed": ctx.seed, "suite": "MCSTAGEDMODES", "feat": base["feat"]})
            if sum(len(r["checks"]) for r in a) >= 12:
                ctx.nontrivial.add(sc_hash(g["FULL"]))


# ---------------------------------------------------------------------------------------------------
# C11 for programs that draw ctx.rand() in model checking (implementation only: the model leaves the values
# uninterpreted and proves that they are a function of the compared state - theorem C11 takes that as `mc_rand ds`)

QUOTE_FREE = [b'[1, 2]', b'7']      # payloads the checker's corruption leaves unchanged (no quoted text)


def gen_draw_base(rng):
    """sender(s) on node 0, drawing receiver on node 1, corruption on: the corruption step of a quote-free payload
    lengthens the path without changing the state, so equal states are reached at different depths"""
    from vlib import f64_bits
    nprocs = rng.choice([2, 2, 3])
    placement = [0] + [1] * (nprocs - 1) if rng.random() < 0.7 else [rng.randrange(2) for _ in range(nprocs)]
    if len(set(placement)) == 1:
        placement[-1] = 1 - placement[0]
    lines = ["NODE 0 0", "NODE 1 0"]
    def msg():
        pl = rng.choice(QUOTE_FREE * 2 + [gen_mc.PAYLOADS[1], gen_mc.PAYLOADS[5]])
        return "%s %s" % (gen_mc.bstr(gen_mc.TIPS[0]), gen_mc.bstr(pl))
    for p in range(nprocs):
        nrows = rng.choice([1, 2])
        cap = rng.choice([1, 2]) if p == 0 else rng.choice([2, 3])
        lines.append("PROC %d %d %d 0 %d %d" % (p, placement[p], cap, rng.choice([1, 1, 2]), nrows))
        for ri in range(nrows):
            acts = []
            others = [q for q in range(nprocs) if placement[q] != placement[p]] or [q for q in range(nprocs) if q != p]
            k = rng.choice([1, 1, 2])
            for _ in range(k):
                r = rng.random()
                if r < 0.55:
                    acts.append("S %d %s" % (rng.choice(others), msg()))
                elif r < 0.8:
                    acts.append("T %d %d 1" % (rng.randrange(2), f64_bits(rng.choice([0.5, 1.0]))))
                else:
                    acts.append("L %s" % msg())
            lines.append("ROW %d %d %s" % (p, len(acts), " ".join(acts)))
    z = f64_bits(0.0)
    lines.append("NET %d %d %d %d %d" % (f64_bits(0.5) if rng.random() < 0.2 else z, z, f64_bits(0.5), f64_bits(1.0), f64_bits(1.0)))
    cb = ["CB LOCAL %d 0 %s" % (placement[0], msg())]
    preds = ["PRED INV NONE", "PRED GOAL NOEVENTS", "PRED PRUNE NONE", "PRED COLLECT NONE"]
    return {"sys": lines, "cb": cb, "preds": preds, "feat": {"corrupt": True, "draws": True}, "nprocs": nprocs, "nnodes": 2}


def suite_mc_draw_modes(ctx, can_run_model):
    rng = random.Random(ctx.seed * 1000003 + 89)
    n = ctx.scale(40, 1500)
    scs, groups = [], []
    for j in range(n):
        base = gen_draw_base(rng)
        st = rng.choice(["BFS", "DFS"])
        g = {}
        for vm in ("FULL", "DISABLED"):
            g[vm] = gen_mc.variant(base, "dm%d-%d-%s" % (ctx.seed, j, vm), st, vm, debug=0, repeat=1)
            scs.append(g[vm])
        groups.append((base, g))
    impl = vlib.run_impl(scs, "dm-impl")
    ctx.clauses.update(["C11:draws_modes_same_states", "C11:draws_modes_same_verdict"])
    for base, g in groups:
        ctx.evaluations += 2
        ia, ib = impl.get(g["FULL"][1], []), impl.get(g["DISABLED"][1], [])
        a, b = parse_mc(ia), parse_mc(ib)
        if len(a) != 1 or len(b) != 1 or not a[0]["result"] or not b[0]["result"]:
            ctx.monitor_failures.append({"clause": "C11:draws_modes_same_verdict", "detail": "no result: %s / %s" % (ia[-2:], ib[-2:]),
                                         "scenario": vlib.scenario_text(g["FULL"]), "impl": ia[:10], "seed": ctx.seed,
                                         "suite": "MCDRAWMODES", "feat": base["feat"]})
            continue
        if a[0]["result"][0] not in ("OK", "ERR") or b[0]["result"][0] not in ("OK", "ERR"):
            ctx.count("draw_modes_out_of_fuel")
            continue
        if a[0]["result"][0] != b[0]["result"][0]:
            ctx.monitor_failures.append({"clause": "C11:draws_modes_same_verdict",
                                         "detail": "Full %s, Disabled %s" % (a[0]["result"][0], b[0]["result"][0]),
                                         "scenario": vlib.scenario_text(g["FULL"]), "impl": ia[:10], "seed": ctx.seed,
                                         "suite": "MCDRAWMODES", "feat": base["feat"]})
            continue
        sa = set(c["eqp"] for c in a[0]["checks"])
        sb = set(c["eqp"] for c in b[0]["checks"])
        if sa != sb:
            ctx.monitor_failures.append({"clause": "C11:draws_modes_same_states",
                                         "detail": "programs drawing ctx.rand(): Full evaluates %d distinct states, Disabled %d "
                                                   "(%d only under Disabled): the values drawn in equal states differ"
                                                   % (len(sa), len(sb), len(sb - sa)),
                                         "scenario": vlib.scenario_text(g["FULL"]), "impl": ia[:10], "seed": ctx.seed,
                                         "suite": "MCDRAWMODES", "feat": base["feat"]})
        # equal states reached at different depths are what makes the comparison meaningful
        depths = {}
        for c in b[0]["checks"]:
            depths.setdefault(c["eqp"], set()).add(c["d"])
        if any(len(v) > 1 for v in depths.values()):
            ctx.count("draw_modes_equal_states_at_two_depths")
            ctx.nontrivial.add(sc_hash(g["FULL"]))


# ---------------------------------------------------------------------------------------------------

def match_known(mf, known):
    for k in known:
        if mf["clause"] in k.get("clauses", []):
            pred = KNOWN_CLASS.get(k.get("class"))
            if pred and pred(mf):
                return k
    return None


KNOWN_CLASS = {
    # F10: MC set_timer on a pending timer leaves the old TimerFired event pending: the overridden instance fires
    # (only for programs that really call set_timer on a name that may be pending: a second pending instance in a
    # program that uses set_timer_once only is NOT this finding)
    "F10_override": lambda mf: mf.get("kind") == "overridden" and bool(mf.get("feat", {}).get("override")),
    # F11: invariants::state_depth_current_run measures trace length
    "F11_depth_current_run": lambda mf: True,
    # F14: clock-reading programs: equal states at different depths have different futures
    "F14_clock": lambda mf: bool(mf.get("feat", {}).get("clock")),
    # F13: a corruptible copy is withheld behind an identical older copy (scenarios with a positive corruption rate)
    # (and the failure goes away when the corruption rate is set to 0 in the same scenario with the same draws)
    # and two identical messages were in flight together at some point of the scenario
    "F13_corrupt_behind_identical": lambda mf: bool(mf.get("feat", {}).get("corrupt")) and not mf.get("corruption_independent")
                                               and bool(mf.get("identical_overlap")),
    # F10 seen through the hand-off: programs that override pending timers
    # F15: the two initialisation routes differ when one process holds two timers whose insertion order is not their
    # firing order: the snapshot orders them by real firing time, the callback route explores both orders
    "F15_routes_timer_inversion": lambda mf: mf.get("suite") == "ROUTES" and bool(mf.get("snapshot_subset_of_callback"))
                                              and bool(mf.get("inverted_timers")),
    "F10_handoff": lambda mf: bool(mf.get("feat", {}).get("override")) and bool(mf.get("feat", {}).get("timers")),
}


def replay(prop, path):
    """Re-run the scenario stored in a replay file against the current tree and print both histories."""
    r = json.load(open(path))
    text = r.get("scenario") or (r.get("smallest_disagreement") or {}).get("scenario")
    if not text:
        print(json.dumps(r, indent=1))
        return 0
    lines = text.split("\n")
    hdr = lines[0].split()
    sc = (hdr[1], hdr[2], lines[1:-1])
    impl = vlib.run_impl([sc], "replay-impl", shards=1)
    model = vlib.run_model([sc], "replay-model", shards=1)
    print("--- implementation")
    print("\n".join(impl.get(sc[1], [])))
    print("--- model")
    print("\n".join(model.get(sc[1], [])))
    d = vlib.first_diff(impl.get(sc[1], []), model.get(sc[1], []))
    print("--- first difference:", d)
    return 0


STD_ASSUMPTIONS_PLACEHOLDER = None
STD_ASSUMPTIONS = [
    "the model functions compute what the Rust functions they mirror compute (checked by the correspondence run "
    "of this check on the scenarios counted above, not proved)",
    "Rust std collections behave as specified (BTreeMap/BTreeSet sorted, VecDeque FIFO)",
]

MC_RULE = ("MC scenarios: random systems of 2-3 table-driven processes on 1-3 nodes (several processes per node), "
           "programs with sends, local sends, set_timer / set_timer_once / cancel_timer on 1-2 names, optional drop / "
           "duplication / corruption rates, callbacks with local messages, crashes, link operations and ordering mode; "
           "explored by the real ModelChecker (BFS/DFS x Full/Partial/Disabled) and by the extracted model; EVERY state "
           "handed to the invariant is compared (digest of the complete McState incl. store indexes, event logs, "
           "counters, network, trace), plus result, statuses, collected set, and the checker's state before/after. ")

SIM_RULE = ("SIM scenarios: random API call scripts against the real System (add nodes/processes, clock skews, network "
            "settings incl. random delay ranges and rates 0 / in (0,1) / 1, local messages, step, steps, "
            "step_for_duration, step_until_no_events, step_until_local_message[_max_steps|_timeout], reads, every link "
            "control, crash / recover / re-add) over table-driven processes that send, set / override / cancel timers, "
            "read the clock and draw random numbers; a fifth of the scripts are link-control-heavy (3-4 nodes, half of "
            "the calls are link / partition / disconnect / reset operations). After EVERY call: return value, new trace "
            "entries and a digest of the observable state (clock, live queue, per-process state / outbox / counters / "
            "event log, network settings and counters) are compared with the model, bit-exact (binary64 through Flocq). "
            "distinct_nontrivial = distinct scripts with >= 15 trace entries and faults, a crash, link operations or timers.")
SIM_ASSUMPTIONS = [
    "the model functions compute what the Rust functions they mirror compute (checked by the correspondence run of "
    "this check, not proved); simcore's queue, cancellation and stepping are modelled, not verified",
    "the random stream regenerated with rand 0.8 / rand_pcg 0.3 (harness draws) is simcore's stream",
    "IEEE binary64 satisfies Spec/TimeLaws.time_laws on the values that occur (monotone rounding, x + 0.0 = x): "
    "assumed for floating point, proved for the integer instance",
]

PROPERTIES = {
    "C01": {
        "suites": [suite_sim_repeat, suite_mc_repeat, suite_mc_rand_repeat, suite_handoff_repeat],
        "rule": "HANDOFFREPEAT: hand-off scenarios (as C15) twice in one OS process and in a second one: identical "
                "snapshots incl. event ids, evaluation order and results. MCRAND (implementation only): explorations of programs that draw ctx.rand() in model checking, by two "
                "ModelChecker instances in one OS process and by a second OS process, must record the same values. " + SIM_RULE + " Every script is run by the implementation twice in one OS process (fresh hash maps) and "
                "once more in a second OS process: the three histories must be identical, and equal to the model's. "
                "Model checking: explorations (single and staged, half of them with a crash in the callback on nodes "
                "hosting several processes) likewise in-process x2 and cross-process. distinct_nontrivial = SIM scripts "
                "as for C05 plus MC scenarios with a crash in the callback or >= 2 start states.",
        "assumptions": SIM_ASSUMPTIONS + [
            "outside the model: address-, time- or thread-dependent behaviour and the values of ctx.rand() in "
            "model-checking mode are covered by the repeated-run monitors only"],
    },
    "C18": {
        "suites": [suite_pytwin],
        "rule": "PYTWIN scenarios: the same hand-off script (simulate, snapshot, model-check, continue) is run with Rust "
                "table-driven processes that issue each row grouped by kind and with Python twins "
                "(harness/py/script_proc.py) through PyProcessFactory; payloads are normalised JSON; programs may read "
                "the clock; traces, return values, counters, every model-checked state (pending events, trace, "
                "outboxes, counters, verdict, 70 library predicates), results, save/restore round trips and the source "
                "processes' states before/after the checker ran are compared; a tenth of the scripts make the Python "
                "process raise: the framework must stop with a handler error. distinct_nontrivial = scripts with >= 12 "
                "trace entries / evaluated states, or a surfaced exception.",
        "assumptions": ["PARTIAL: only the relay logic is proved (C18_relay); pickle / deepcopy / json / pyo3 are "
                        "exercised by the twin runs, not modelled",
                        "payloads are normalised JSON (json.dumps(json.loads(x)) == x), as the property's quantifier says"],
    },
    "C05": {"suites": [suite_sim], "rule": SIM_RULE, "assumptions": SIM_ASSUMPTIONS},
    "C06": {"suites": [suite_sim], "rule": SIM_RULE, "assumptions": SIM_ASSUMPTIONS + [
        "step_until_local_message_timeout is not among the calls C06 lists and is not held to a contract",
        "durations passed to step_for_duration are non-negative (a negative one moves the clock backwards: "
        "C06_negative_duration_refuted)"]},
    "C08": {"suites": [suite_sim], "rule": SIM_RULE, "assumptions": SIM_ASSUMPTIONS},
    "C17": {"suites": [suite_sim], "rule": SIM_RULE, "assumptions": SIM_ASSUMPTIONS},
    "C07": {"suites": [suite_sim, suite_mc_timers],
            "rule": SIM_RULE + " Model-checking half: verbose MC scenarios over programs with set_timer / set_timer_once / "
                    "cancel_timer on 1-2 names inside one handler and across handlers; on every explored path the timer "
                    "contract (one pending instance per name; an overridden or cancelled instance never fires; every "
                    "instance fires at most once) is replayed over the trace.",
            "assumptions": SIM_ASSUMPTIONS + ["known finding F10 (model checking: the overridden timer still fires) is listed"]},
    "C09": {
        "suites": [suite_mc, suite_mc_staged, suite_handoff, suite_pytwin],
        "rule": MC_RULE + "Each run is executed twice on the same ModelChecker. distinct_nontrivial = distinct scenarios "
                "with >= 8 evaluated states and timers, faults or a crash (staged: >= 2 start states). HANDOFF scenarios "
                "(simulate, snapshot, explore, continue): the continuation must equal the continuation of a twin System on "
                "which no checker was ever created (C09:source_untouched). PYTWIN scenarios: the same for Python processes, "
                "and the checker's output must not depend on whether the source System was stepped further before the "
                "checker ran (C09:python_*).",
        "assumptions": STD_ASSUMPTIONS + [
            "process save/restore is exact (the property's own side condition; true of the harness's ScriptProc)",
            "aliasing between the checker's copies and the source System is invisible to a value-passing model: "
            "covered by the repeated-run monitors only (PARTIAL for the clause 'the System it was created from is untouched')"],
    },
    "C02": {
        "suites": [suite_mc, suite_mc_timers],
        "rule": MC_RULE + "Every run is repeated by the extracted REFERENCE SEMANTICS (Spec/RefSys: same system layer "
                "over the one-list store specification) and the sets of states (projection: process states, outboxes, "
                "crash flags, pending events with options, offered sets) must coincide; verbose timer scenarios check "
                "the timer contract on every path. distinct_nontrivial as C09.",
        "assumptions": STD_ASSUMPTIONS + ["handler_closed: processes send only to existing processes",
                                          "known finding F10 (overridden timer still fires) is excluded by class, see known_findings.json"],
    },
    "C03": {
        "suites": [suite_mc, suite_mc_matrix_sb],
        "rule": MC_RULE + "Reference-semantics exploration as for C02 (exhaustiveness = no reference state missing). "
                "Matrix: each base system under BFS/DFS x Full/Partial/Disabled with state-based predicates.",
        "assumptions": STD_ASSUMPTIONS + ["state-based predicates; clock-independent draw-free programs; override-free "
                                          "steps (F10); runs that return"],
    },
    "C10": {
        "suites": [suite_mc_matrix_sb, suite_mc_matrix, suite_mc_staged],
        "rule": "Staged runs as C16 (the order in which run_from_states takes its start states - by depth - is part of "
                "the correspondence). Each base system (as in MC scenarios) explored under BFS and DFS in all three visited modes: with "
                "state-based predicates (no depth bound) the evaluated sets and verdicts are compared; with a common "
                "depth bound verdict kinds and error depths (BFS error depth <= DFS error depth). "
                "distinct_nontrivial = base systems with >= 40 evaluated states over the six runs and timers or faults.",
        "assumptions": STD_ASSUMPTIONS + ["state-based predicates; clock-independent programs"],
    },
    "C11": {
        "suites": [suite_mc_matrix_sb, suite_mc_matrix, suite_clock, suite_mc_staged_modes, suite_mc_draw_modes],
        "rule": "as C10, comparing Full / Partial / Disabled; plus clock-reading programs (known finding F14: witness "
                "and random stream, Full vs Disabled); plus programs that draw ctx.rand() under corruption of quote-free "
                "payloads (equal states at different depths), implementation only, Full vs Disabled.",
        "assumptions": STD_ASSUMPTIONS + ["no 64-bit hash collision (Partial is modelled as Full)",
                                          "known findings F14 (clock-reading programs) and F10 are excluded by class"],
    },
    "C15": {
        "suites": [suite_handoff, suite_routes],
        "rule": "HANDOFF scenarios: a random simulator script (2-3 table-driven processes on 1-3 nodes, local messages, "
                "timers incl. re-armed and cancelled ones, link controls, rates, crashes, recoveries with re-added processes, "
                "partial stepping so that messages and timers are in flight), then ModelChecker::new on the live System, a "
                "BFS run, and the continuation of the simulation.  Implementation and extracted model are compared line by "
                "line: the snapshot state (digests of complete McState incl. pending events with remaining delays, network, "
                "crash flags), every evaluated state of the exploration, the simulator before and after.  Monitors: no panic "
                "in ModelChecker::new, crashed set equal, pending events = live queue events.  ROUTES scenarios: the same "
                "operations performed in the simulator before the snapshot and in the preliminary callback of a checker "
                "created from the untouched system must visit the same process-visible states.  distinct_nontrivial = "
                "hand-off scenarios with >= 6 evaluated states, >= 3 continuation observations and timers or failures, plus "
                "route pairs with >= 4 visited states.",
        "assumptions": STD_ASSUMPTIONS + SIM_ASSUMPTIONS + [
            "every located process is installed at the snapshot (after recover_node the processes are re-added): "
            "C15_recover_without_readd_refuted shows simulator and checker panic alike otherwise"],
    },
    "C04": {
        "suites": [suite_handoff],
        "rule": "HANDOFF scenarios as C15 (corpus witnesses of the known findings first).  Inclusion monitor: after a run "
                "that returned Ok with an exhaustive strategy, every process-visible state (process states, outboxes, "
                "counters; clocks and ids projected away) the CONTINUED simulation passes through, with the draws it "
                "actually made, must be among the states the checker evaluated.  distinct_nontrivial as C15.",
        "assumptions": STD_ASSUMPTIONS + SIM_ASSUMPTIONS + [
            "theorem hypotheses: clock- and draw-independent handlers, override-free steps (F10), corruption rate 0 (F13), "
            "in-flight messages routed to the current node of their destination, continuation by step calls; outside "
            "them the deciding evidence is the inclusion monitor on sampled hand-offs",
            "known findings F13 (corruptible copy behind an identical older copy) and F10 via hand-off are listed"],
    },
    "C14": {
        "suites": [suite_mc, suite_mc_staged],
        "rule": MC_RULE + "A fifth of the scenarios crash a node in the callback (several processes per node, messages "
                "in both directions and timers pending); every evaluated state is checked: no pending event touches a "
                "process of a crashed node, the crashed nodes' process entries never change. distinct_nontrivial as C09.",
        "assumptions": STD_ASSUMPTIONS + ["McNetwork::reset is not called after the crash (C14_reset_after_crash_refuted)"],
    },
    "C16": {
        "suites": [suite_mc_staged, suite_mc],
        "rule": MC_RULE + "Staged: stage 1 collects (depth / outbox / no-events predicates), stage 2 continues from the "
                "collected set after a further callback (run_from_states_with_change), Debug mode; collected sets and "
                "status counters are checked against the evaluated states. distinct_nontrivial = staged scenarios with "
                ">= 2 start states and >= 4 states in stage 2, plus MC scenarios as C09.",
        "assumptions": STD_ASSUMPTIONS + ["state-based predicates; all start states share the network settings"],
    },
    "C19": {
        "suites": [suite_pred_sweep, suite_mc, suite_mc_staged],
        "rule": MC_RULE + "On EVERY state handed to the invariant a battery of 70 instances of the library predicates "
                "(all of src/mc/predicates.rs except time_limit: depth limits with boundary parameters, received_messages "
                "with three expected sets and a wrong node, got_n_local_messages, no_events, depth_reached, always_ok, "
                "event_happened_n_times_current_run, sent_messages_limit, events_limit(_per_proc), proc_permutations "
                "with four lists, the collects, all combinators, the four defaults) is evaluated with the real functions "
                "and by the Gallina model; staged runs give several McStarted entries. distinct_nontrivial as C09/C16.",
        "assumptions": STD_ASSUMPTIONS + ["known finding F11 (state_depth_current_run measures trace length) is listed"],
    },
    "C12": {
        "suites": [suite_netsweep, suite_mc],
        "rule": "NETSWEEP: one cross-node and one same-node send explored by the real ModelChecker under every "
                "combination of rate signs (drop, duplication, corruption zero / positive) x 9 link settings (none, "
                "sender outgoing, receiver incoming, directed link, reverse link, sender incoming, partition, "
                "disconnect receiver, cut-then-reset), rates applied in the snapshot or in the callback, payloads "
                "incl. nested / empty quotes, escapes and non-ASCII; the full traces of all explored states are "
                "compared with the model and checked against the documented fates. " + MC_RULE +
                "distinct_nontrivial = sweep scenarios with a positive rate and >= 3 explored states, plus MC "
                "scenarios as for C09.",
        "assumptions": STD_ASSUMPTIONS + ["the regex crate implements the pattern extracted from both call sites as "
                                          "Msg.corrupt does (checked on the payloads of this run and by the simulator monitors)"],
    },
    "C13": {
        "suites": [suite_store, suite_handoff],
        "rule": "as C20 (STORE scenarios with timers of equal and different delays set, re-set, cancelled and fired at "
                "different moments, both ordering modes); distinct_nontrivial as C20.  Feasibility: HANDOFF scenarios as "
                "C04 (the schedule the timed simulator performs must be among the explored ones; clause "
                "C13:feasible_schedule_explored for scenarios without corruption).",
        "assumptions": STD_ASSUMPTIONS + SIM_ASSUMPTIONS + [
            "feasibility theorem (= C04_stage2) hypotheses: override-free steps (F10), corruption rate 0, clock- and "
            "draw-independent handlers; timed executions are those of the simulator model",
            "known finding F10 via hand-off is listed"],
    },
    "C20": {
        "suites": [suite_store],
        "rule": "STORE scenarios: random operation scripts (push message/timer, pop offered, pop any live, duplicate "
                "= pop + push_with_fixed_id + push, corrupt = pop + push_with_fixed_id, cancel_timer, "
                "cancel_proc_events; every 10th script also raw pops / re-insertions of arbitrary ids) over 2-3 "
                "processes, 1-2 timer names, 5 delays, 1-3 distinct messages; after every operation the offered "
                "sets (both modes), live events, id counter and all internal indexes are compared between "
                "implementation and model, and the implementation's history is replayed through Spec.StoreSpec. "
                "distinct_nontrivial = distinct scripts that stay legal, contain a timer and a message and a "
                "re-insertion under a fixed id, a cancel_timer or a cancel_proc_events",
        "assumptions": STD_ASSUMPTIONS + [
            "legal operation sequences are those Spec.StoreSpec.legal accepts (push anything; pop a pending id; "
            "push_with_fixed_id a message under a non-pending id below the counter; cancel_timer when the name's "
            "last timer is pending or the name was never used; cancel_proc_events)"],
    },
}
