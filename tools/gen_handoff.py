"""Generator of HANDOFF scenarios: simulate a prefix, snapshot (ModelChecker::new), explore, continue simulating."""
from vlib import f64_bits
import gen_sim
import gen_mc


def gen_timer_scenario(rng, sid):
    """hand-offs with timers pending at the snapshot and more timers set afterwards (different delays), messages
    in flight, fixed network delay: the continuation fires them in real-time order"""
    nprocs = rng.choice([2, 2, 3])
    nnodes = rng.choice([2, 3])
    seed = rng.randrange(1, 1 << 20)
    lines = ["SEED %d" % seed]
    placement = [p % nnodes for p in range(nprocs)]
    delays = [0.25, 0.5, 1.0, 1.5, 2.0, 4.0]
    for p in range(nprocs):
        nrows = rng.choice([1, 2, 2])
        lines.append("PROG %d %d 0 0 %d" % (p, rng.choice([2, 3, 4]), nrows))
        for _ in range(nrows):
            acts = []
            for _ in range(rng.choice([1, 2, 2, 3])):
                r = rng.random()
                if r < 0.5:
                    acts.append("T %d %d 1" % (rng.randrange(3), f64_bits(rng.choice(delays))))
                elif r < 0.9:
                    acts.append("S %d %s" % (rng.choice([q for q in range(nprocs) if q != p]), gen_mc.gen_msg(rng)))
                else:
                    acts.append("C %d" % rng.randrange(3))
            lines.append("ROW %d %d %s" % (p, len(acts), " ".join(acts)))
    lines.append("DRAWS")
    skews = [0.0]
    for n in range(nnodes):
        lines.append("OP ADDNODE %d" % n)
        if rng.random() < 0.3:
            # clock skews must not enter the remaining delays of the snapshot's timers
            sk = rng.choice([0.25, 1.5, 5.0])
            skews.append(sk)
            lines.append("OP SKEW %d %d" % (n, f64_bits(sk)))
    for p in range(nprocs):
        lines.append("OP ADDPROC %d %d" % (p, placement[p]))
    lines.append("OP NET DELAY %d" % f64_bits(rng.choice([0.5, 1.0, 1.0])))
    for _ in range(rng.choice([1, 2, 2])):
        lines.append("OP LOCAL %d %s" % (rng.randrange(nprocs), gen_mc.gen_msg(rng)))
    for _ in range(rng.choice([0, 0, 1, 2])):
        lines.append("OP STEP")
    lines.append("SNAPSHOT")
    lines += gen_mc.clock_lines(skews, 40)
    lines += ["PRED INV NONE", "PRED GOAL NOEVENTS", "PRED PRUNE NONE", "PRED COLLECT NONE",
              "RUN BFS FULL 0 %d" % gen_mc.FUEL, "CONTINUE"]
    lines += ["OP STEP"] * 14
    feat = {"timers": True, "override": False, "clock": False, "rand_progs": False, "drop": 0.0, "dupl": 0.0, "corrupt": 0.0,
            "rand_delay": False, "crash": False, "netops": False, "skew": len(skews) > 1, "links": False, "timer_handoff": True}
    return ("HANDOFF", sid, lines), feat, seed


def gen_timer_chain_scenario(rng, sid):
    """hand-offs with a CHAIN of timers: process 0 arms three timers with non-decreasing delays in one handler call
    (the later ones are withheld behind the earlier ones in the checker); a message of process 1, in flight at the
    snapshot, makes it cancel one of them - possibly one that is itself still withheld - before the first fires.
    The simulator then fires the remaining ones; the checker must explore that."""
    seed = rng.randrange(1, 1 << 20)
    tip = gen_mc.TIPS[0]
    pls = list(gen_mc.PAYLOADS_OVERRIDE or gen_mc.PAYLOADS[:3])[:3]     # the Python twins need JSON payloads
    rng.shuffle(pls)
    la, lb, mm = pls[0], pls[1], pls[2]
    k_local = [2] + list(tip) + [256] + list(la)
    k_msg = [1, 1] + list(tip) + [256] + list(mm)
    pick = None
    for nrows in (3, 4, 5, 6, 7, 8, 9, 11, 13):
        r0 = gen_mc.script_row(0, k_local, nrows, False)
        r1 = gen_mc.script_row(1, k_msg, nrows, False)
        others = {gen_mc.script_row(1, [3, t], nrows, False) for t in range(3)}
        if r0 != r1 and not ({r0, r1} & others):
            pick = (nrows, r0, r1)
            break
    if pick is None:
        return gen_timer_scenario(rng, sid)
    nrows, r0, r1 = pick
    ds = sorted(rng.choice([1.0, 1.5, 2.0, 3.0, 4.0]) for _ in range(3))
    if rng.random() < 0.3:
        ds[1] = ds[0]                      # equal delays are withheld in set order too
    victim = rng.choice([1, 1, 1, 0, 2])
    lines = ["SEED %d" % seed]
    lines.append("PROG 0 2 0 0 %d" % nrows)
    for r in range(nrows):
        if r == r0:
            lines.append("ROW 0 3 " + " ".join("T %d %d 1" % (t, f64_bits(ds[t])) for t in range(3)))
        elif r == r1:
            lines.append("ROW 0 1 C %d" % victim)
        else:
            lines.append("ROW 0 0 ")
    # process 1: forwards on its local message; keeps a heartbeat of its own so that something else stays pending
    lines.append("PROG 1 1 0 0 1")
    lines.append("ROW 1 2 S 0 %s %s T 0 %d 1" % (gen_mc.bstr(tip), gen_mc.bstr(mm), f64_bits(rng.choice([2.5, 6.0]))))
    lines.append("DRAWS")
    lines += ["OP ADDNODE 0", "OP ADDNODE 1", "OP ADDPROC 0 0", "OP ADDPROC 1 1"]
    lines.append("OP NET DELAY %d" % f64_bits(rng.choice([0.25, 0.5])))
    lines.append("OP LOCAL 0 %s %s" % (gen_mc.bstr(tip), gen_mc.bstr(la)))
    lines.append("OP LOCAL 1 %s %s" % (gen_mc.bstr(tip), gen_mc.bstr(lb)))
    # (local messages are handled at once: three timers are pending and the message is in flight now)
    if rng.random() < 0.3:
        lines.append("OP STEP")            # the cancel already happened in the simulator
    lines.append("SNAPSHOT")
    lines += gen_mc.clock_lines([0.0], 40)
    lines += ["PRED INV NONE", "PRED GOAL NOEVENTS", "PRED PRUNE NONE", "PRED COLLECT NONE",
              "RUN BFS FULL 0 %d" % gen_mc.FUEL, "CONTINUE"]
    lines += ["OP STEP"] * 8
    feat = {"timers": True, "override": False, "clock": False, "rand_progs": False, "drop": 0.0, "dupl": 0.0, "corrupt": 0.0,
            "rand_delay": False, "crash": False, "netops": False, "skew": False, "links": False, "timer_handoff": True,
            "timer_chain": True}
    return ("HANDOFF", sid, lines), feat, seed


def gen_link_scenario(rng, sid):
    """hand-offs around link control: two processes share node 0, a third lives on node 1; chatty programs send to
    same-node and cross-node peers; a link operation (disconnect / drop_incoming / drop_outgoing / disable_link) on one
    of the nodes is applied with messages already in flight, then the snapshot is taken.  No faults."""
    seed = rng.randrange(1, 1 << 20)
    lines = ["SEED %d" % seed]
    placement = [0, 0, 1]
    for p in range(3):
        nrows = rng.choice([1, 2])
        lines.append("PROG %d %d 0 0 %d" % (p, rng.choice([2, 3]), nrows))
        for _ in range(nrows):
            k = rng.choice([1, 2, 2])
            acts = ["S %d %s" % (rng.choice([q for q in range(3) if q != p]), gen_mc.gen_msg(rng)) for _ in range(k)]
            if rng.random() < 0.3:
                acts.append("L %s" % gen_mc.gen_msg(rng))
            lines.append("ROW %d %d %s" % (p, len(acts), " ".join(acts)))
    lines.append("DRAWS")
    lines += ["OP ADDNODE 0", "OP ADDNODE 1"]
    for p in range(3):
        lines.append("OP ADDPROC %d %d" % (p, placement[p]))
    lines.append("OP NET DELAY %d" % f64_bits(rng.choice([0.5, 1.0])))
    def netop():
        n = rng.randrange(2)
        return rng.choice(["DISCONNECT %d" % n, "DROPIN %d" % n, "DROPOUT %d" % n, "DISABLELINK %d %d" % (n, 1 - n),
                           "DISABLELINK %d %d" % (n, n)])
    if rng.random() < 0.4:
        lines.append("OP NET " + netop())
    for _ in range(rng.choice([1, 2])):
        lines.append("OP LOCAL %d %s" % (rng.randrange(3), gen_mc.gen_msg(rng)))
    for _ in range(rng.choice([0, 0, 1])):
        lines.append("OP STEP")
    if rng.random() < 0.7:
        lines.append("OP NET " + netop())
    lines.append("SNAPSHOT")
    lines += gen_mc.clock_lines([0.0], 40)
    lines += ["PRED INV NONE", "PRED GOAL NOEVENTS", "PRED PRUNE NONE", "PRED COLLECT NONE",
              "RUN BFS FULL 0 %d" % gen_mc.FUEL, "CONTINUE"]
    lines += ["OP STEP"] * 12
    feat = {"timers": False, "override": False, "clock": False, "rand_progs": False, "drop": 0.0, "dupl": 0.0, "corrupt": 0.0,
            "rand_delay": False, "crash": False, "netops": True, "skew": False, "links": True, "link_handoff": True}
    return ("HANDOFF", sid, lines), feat, seed


def gen_scenario(rng, sid, clock_free=True):
    if rng.random() < 0.4:
        return gen_timer_scenario(rng, sid)
    if rng.random() < 0.3:
        return gen_link_scenario(rng, sid)
    if rng.random() < 0.15:
        return gen_timer_chain_scenario(rng, sid)
    feat = gen_sim.gen_features(rng)
    feat["rand_progs"] = False            # draw-free programs (C04's quantifier)
    if clock_free:
        feat["clock"] = False
    feat["links"] = False
    # moderate faults so that explorations stay small
    feat["dupl"] = rng.choice([0.0, 0.0, 0.0, 0.4])
    feat["drop"] = rng.choice([0.0, 0.0, 0.3])
    feat["corrupt"] = rng.choice([0.0, 0.0, 0.5])
    (cls, _, lines), feat, seed = gen_sim.gen_scenario(rng, sid, feat=feat, nops=rng.randint(2, 9), partial_readd=False)
    # keep the prefix free of reads (so that outboxes accumulate on both sides) and of the final drain
    prefix = [l for l in lines if not l.startswith("OP READ") and not l.startswith("OP UNTIL")]
    skews = [0.0]
    for l in prefix:
        t = l.split()
        if t[:2] == ["OP", "SKEW"]:
            from vlib import bits_f64
            skews.append(bits_f64(t[3]))
    out = list(prefix)
    out.append("SNAPSHOT")
    out += gen_mc.clock_lines(skews, 40)
    out += ["PRED INV NONE", "PRED GOAL NOEVENTS", "PRED PRUNE NONE", "PRED COLLECT NONE",
            "RUN BFS FULL 0 %d" % gen_mc.FUEL]
    out.append("CONTINUE")
    for _ in range(rng.randint(3, 10)):
        out.append("OP STEP")
    return ("HANDOFF", sid, out), feat, seed
