"""Generator of STORE scenarios (operation scripts for PendingEvents)."""
from vlib import f64_bits

PAYLOADS = [
    b'plain',
    b'{"k": "v"}',
    b'{"a": "", "b": "xy", "c": ""}',
    b'""',
    b'"unclosed',
    b'{"n": 1}',
    # two long payloads of equal length that agree on their first 32 bytes and differ only at the end
    b'{"key": "users/0000000000000042/profile", "v": "A"}',
    b'{"key": "users/0000000000000042/profile", "v": "B"}',
]
TIPS = [b'A', b'PING']
# delays include pairs that differ in the last bits only (1.0 vs 1.0 + 5e-10, 0.1 + 0.2 vs 0.3) and a huge one:
# the order of delays must be the exact order of the floating-point values
DELAYS = [0.0, 0.5, 1.0, 1.0, 2.5, 1.0 + 5e-10, 0.1 + 0.2, 0.3, 1e300]


def bstr(b):
    return " ".join([str(len(b))] + [str(x) for x in b])


def gen_msg(rng):
    return "%s %s" % (bstr(rng.choice(TIPS)), bstr(rng.choice(PAYLOADS)))


def gen_opts(rng):
    r = rng.random()
    if r < 0.25:
        return "NF %d" % f64_bits(1.0)
    return "PF %d %d %d" % (rng.randint(0, 1), rng.choice([0, 0, 1, 2]), rng.randint(0, 1))


def gen_timer_scenario(rng, sid):
    """timer-heavy scripts on one or two processes: several timers of one process pending at once with equal and
    different delays, cancelled (also while still withheld) and consumed in every order"""
    nproc = rng.choice([1, 1, 2])
    nnames = rng.choice([3, 4])
    n = rng.randint(5, 18)
    lines = []
    for _ in range(n):
        r = rng.random()
        if r < 0.50:
            lines.append("PUSHTIMER %d %d %d" % (rng.randrange(nproc), rng.randrange(nnames),
                                                f64_bits(rng.choice([0.5, 1.0, 1.0, 2.0, 3.0, 1.0 + 5e-10, 1.0 - 2e-16]))))
        elif r < 0.70:
            lines.append("CANCELTIMER %d %d" % (rng.randrange(nproc), rng.randrange(nnames)))
        elif r < 0.90:
            lines.append("POPOFF %d" % rng.randrange(4))
        elif r < 0.95:
            lines.append("POPLIVE %d" % rng.randrange(6))
        else:
            lines.append("PUSHMSG %s %d %d %s" % (gen_msg(rng), 0, rng.randrange(nproc), gen_opts(rng)))
    if rng.random() < 0.7:
        lines += ["POPOFF 0"] * (n + 2)
    return ("STORE", sid, lines)


def gen_scenario(rng, sid, malformed=False, nops=None):
    if not malformed and rng.random() < 0.35:
        return gen_timer_scenario(rng, sid)
    nproc = rng.choice([2, 2, 3])
    nnames = rng.choice([1, 2, 2])
    n = nops if nops is not None else rng.randint(4, 28)
    lines = []
    # few distinct messages so that identical in-flight copies are common
    pool = [(gen_msg(rng), rng.randrange(nproc), rng.randrange(nproc)) for _ in range(rng.choice([1, 2, 3]))]
    for _ in range(n):
        r = rng.random()
        if r < 0.24:
            m, s, d = rng.choice(pool)
            lines.append("PUSHMSG %s %d %d %s" % (m, s, d, gen_opts(rng)))
        elif r < 0.44:
            lines.append("PUSHTIMER %d %d %d" % (rng.randrange(nproc), rng.randrange(nnames),
                                                f64_bits(rng.choice(DELAYS))))
        elif r < 0.64:
            lines.append("POPOFF %d" % rng.randrange(8))
        elif r < 0.67:
            lines.append("POPLIVE %d" % rng.randrange(8))
        elif r < 0.76:
            lines.append("DUP %d" % rng.randrange(8))
        elif r < 0.85:
            lines.append("CORRUPT %d" % rng.randrange(8))
        elif r < 0.93:
            lines.append("CANCELTIMER %d %d" % (rng.randrange(nproc), rng.randrange(nnames)))
        elif r < 0.97:
            lines.append("CANCELPROC %d" % rng.randrange(nproc))
        else:
            if malformed:
                lines.append(rng.choice(["RAWPOP %d" % rng.randrange(12), "REINSERT %d" % rng.randrange(6)]))
            else:
                lines.append("POPOFF %d" % rng.randrange(8))
    # drain: everything pending must come out through offered ids
    if not malformed and rng.random() < 0.5:
        lines += ["POPOFF 0"] * (n + 4)
    return ("STORE", sid, lines)


def classify(sc):
    """features of a scenario used for the distribution in the evidence and for the non-trivial rule."""
    cls, sid, lines = sc
    kinds = [l.split()[0] for l in lines]
    f = {
        "ops": len(lines),
        "has_dup": "DUP" in kinds,
        "has_corrupt": "CORRUPT" in kinds,
        "has_cancel_proc": "CANCELPROC" in kinds,
        "has_cancel_timer": "CANCELTIMER" in kinds,
        "timers": kinds.count("PUSHTIMER"),
        "msgs": kinds.count("PUSHMSG"),
        "malformed": any(k in ("RAWPOP", "REINSERT") for k in kinds),
    }
    return f
