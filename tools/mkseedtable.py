#!/usr/bin/env python3
"""Regenerate the table of seeded changes in DESIGN.md (between the SEEDED_TABLE markers) from seeded/*/meta.json and
seeded/RESULTS.json (written by tools/seedregress.py)."""
import json, os, re
ROOT = os.path.dirname(os.path.dirname(os.path.abspath(__file__)))
res = json.load(open(ROOT + "/seeded/RESULTS.json"))
rows = ["| seeded change | breaks | what it needs to manifest | verdict of the checks (last regression run) | history |", "|---|---|---|---|---|"]
for n in sorted(os.listdir(ROOT + "/seeded")):
    d = ROOT + "/seeded/" + n
    if not os.path.isdir(d):
        continue
    m = json.load(open(d + "/meta.json"))
    r = res.get(n, {})
    verdicts = []
    for p in m["breaks"]:
        x = r.get(p)
        if not x:
            verdicts.append("%s: not run" % p)
        elif x["exit"] == 1:
            verdicts.append("%s: VIOLATION `%s`" % (p, (x["clause"] or "").replace("|", "/")[:110]))
        else:
            verdicts.append("%s: **MISSED**" % p)
    hist = "; ".join("%s: %s" % (k, v) for k, v in m.get("detected_by", {}).items() if "MISSED" in v or "missed" in v)
    hist = re.sub(r"\s+", " ", hist)[:420] if hist else "caught as built"
    rows.append("| `%s` | %s | %s | %s | %s |" % (n, ", ".join(m["breaks"]), re.sub(r"\s+", " ", m["needs"])[:330].replace("|", "/"),
                                                "<br>".join(verdicts), hist.replace("|", "/")))
table = "\n".join(rows)
p = ROOT + "/DESIGN.md"
s = open(p).read()
if "SEEDED_TABLE\n" in s and "<!-- SEEDED_TABLE_BEGIN -->" not in s:
    s = s.replace("SEEDED_TABLE\n", "<!-- SEEDED_TABLE_BEGIN -->\n<!-- SEEDED_TABLE_END -->\n")
s = re.sub(r"<!-- SEEDED_TABLE_BEGIN -->.*?<!-- SEEDED_TABLE_END -->", "<!-- SEEDED_TABLE_BEGIN -->\n" + table.replace("\\", "\\\\") + "\n<!-- SEEDED_TABLE_END -->", s, flags=re.S)
open(p, "w").write(s)
print(table)
