"""Generator of SIM scenarios (API call scripts against the simulator)."""
from vlib import f64_bits
from gen_store import PAYLOADS, TIPS, bstr
import gen_mc

NDRAWS = 4000


def gen_features(rng):
    return {
        "timers": rng.random() < 0.6,
        "override": rng.random() < 0.4,
        "clock": rng.random() < 0.4,
        "rand_progs": rng.random() < 0.3,
        "drop": rng.choice([0.0, 0.0, 0.3, 1.0]),
        "dupl": rng.choice([0.0, 0.0, 0.4, 1.0]),
        "corrupt": rng.choice([0.0, 0.0, 0.5, 1.0]),
        "rand_delay": rng.random() < 0.5,
        "crash": rng.random() < 0.35,
        "netops": rng.random() < 0.4,
        "skew": rng.random() < 0.3,
        "links": False,
    }


def gen_snetop(rng, nnodes):
    a, b = rng.randrange(nnodes), rng.randrange(nnodes)
    if rng.random() < 0.14:
        # delay settings change in the middle of a script, in both orders (set_delay after set_delays and back)
        if rng.random() < 0.5:
            return "DELAY %d" % f64_bits(rng.choice([0.0, 0.5, 1.0, 2.0, 5.0, 0.01, 7.3, 123.456]))
        return "DELAYS %d %d" % (f64_bits(rng.choice([0.0, 0.5, 1.0])), f64_bits(rng.choice([1.0, 2.0, 3.5])))
    r = rng.random()
    if r < 0.12:
        return "DROPIN %d" % a
    if r < 0.2:
        return "PASSIN %d" % a
    if r < 0.32:
        return "DROPOUT %d" % a
    if r < 0.4:
        return "PASSOUT %d" % a
    if r < 0.5:
        return "DISCONNECT %d" % a
    if r < 0.58:
        return "CONNECT %d" % a
    if r < 0.7:
        return "DISABLELINK %d %d" % (a, b)
    if r < 0.78:
        return "ENABLELINK %d %d" % (a, b)
    if r < 0.86:
        g1 = sorted(rng.sample(range(nnodes), rng.randint(1, max(1, nnodes - 1))))
        g2 = [x for x in range(nnodes) if x not in g1] or [g1[0]]
        return "PARTITION %d %s %d %s" % (len(g1), " ".join(map(str, g1)), len(g2), " ".join(map(str, g2)))
    if r < 0.92:
        return "RESET"
    return rng.choice(["DROPRATE", "DUPLRATE", "CORRUPTRATE"]) + " %d" % f64_bits(rng.choice([0.0, 0.3, 1.0]))


def gen_link_scenario(rng, sid, seed=None):
    """link-control-heavy scripts: 3-4 nodes, one chatty process per node, many link / partition / disconnect /
    reset operations interleaved with sends in every direction"""
    nnodes = rng.choice([3, 3, 4])
    seed = seed if seed is not None else rng.randrange(1, 1 << 20)
    feat = {"timers": False, "override": False, "clock": False, "rand_progs": False, "drop": 0.0, "dupl": rng.choice([0.0, 0.0, 1.0]),
            "corrupt": 0.0, "rand_delay": False, "crash": False, "netops": True, "skew": False, "links": True}
    lines = ["SEED %d" % seed]
    for p in range(nnodes):
        others = [q for q in range(nnodes) if q != p]
        lines.append("PROG %d %d 0 0 1" % (p, 8))
        acts = ["S %d %s" % (q, gen_mc.gen_msg(rng)) for q in others]
        lines.append("ROW %d %d %s" % (p, len(acts), " ".join(acts)))
    lines.append("DRAWS")
    for n in range(nnodes):
        lines.append("OP ADDNODE %d" % n)
    for p in range(nnodes):
        lines.append("OP ADDPROC %d %d" % (p, p))
    if feat["dupl"]:
        lines.append("OP NET DUPLRATE %d" % f64_bits(feat["dupl"]))
    for _ in range(rng.randint(8, 22)):
        r = rng.random()
        if r < 0.5:
            lines.append("OP NET " + gen_snetop(rng, nnodes))
        elif r < 0.8:
            # a local message makes the process send to every other node; only the first cap invocations act
            lines.append("OP LOCAL %d %s" % (rng.randrange(nnodes), gen_mc.gen_msg(rng)))
        else:
            lines.append("OP STEPS %d" % rng.choice([1, 2, 4]))
    lines.append("OP UNTILNOEVENTS")
    return ("SIM", sid, lines), feat, seed


def gen_timer_scenario(rng, sid, seed=None):
    """timer-API-heavy scripts: 1-2 nodes, 2 processes, 1-2 timer names, every row is a short sequence of
    set_timer / set_timer_once / cancel_timer on overlapping names (several operations on one name inside one handler
    call, with a timer of that name possibly pending from an earlier call), high caps, many inputs and partial steps"""
    nnodes = rng.choice([1, 2])
    nprocs = 2
    nnames = rng.choice([1, 1, 2])
    seed = seed if seed is not None else rng.randrange(1, 1 << 20)
    feat = {"timers": True, "override": True, "clock": False, "rand_progs": False, "drop": 0.0, "dupl": 0.0, "corrupt": 0.0,
            "rand_delay": False, "crash": rng.random() < 0.2, "netops": False, "skew": False, "links": False, "timer_stress": True}
    lines = ["SEED %d" % seed]
    placement = [rng.randrange(nnodes) for _ in range(nprocs)]
    def top():
        r = rng.random()
        nm = rng.randrange(nnames)
        if r < 0.35:
            return "T %d %d 0" % (nm, f64_bits(rng.choice([0.5, 1.0, 2.0, 3.0])))
        if r < 0.7:
            return "T %d %d 1" % (nm, f64_bits(rng.choice([0.5, 1.0, 2.0, 3.0])))
        return "C %d" % nm
    for p in range(nprocs):
        nrows = rng.choice([2, 3, 4])
        lines.append("PROG %d %d 0 0 %d" % (p, rng.choice([5, 6, 8]), nrows))
        for _ in range(nrows):
            k = rng.choice([1, 2, 2, 3, 3, 4])
            acts = [top() for _ in range(k)]
            if rng.random() < 0.3:
                acts.append("S %d %s" % (rng.randrange(nprocs), gen_mc.gen_msg(rng)))
            lines.append("ROW %d %d %s" % (p, len(acts), " ".join(acts)))
    lines.append("DRAWS")
    for n in range(nnodes):
        lines.append("OP ADDNODE %d" % n)
    for p in range(nprocs):
        lines.append("OP ADDPROC %d %d" % (p, placement[p]))
    crashed = set()
    for _ in range(rng.randint(10, 24)):
        r = rng.random()
        live = [p for p in range(nprocs) if placement[p] not in crashed]
        if r < 0.45 and live:
            lines.append("OP LOCAL %d %s" % (rng.choice(live), gen_mc.gen_msg(rng, small=False)))
        elif r < 0.75:
            lines.append("OP STEP")
        elif r < 0.85:
            lines.append("OP DURATION %d" % f64_bits(rng.choice([0.25, 0.5, 1.0])))
        elif r < 0.92 and feat["crash"]:
            if crashed:
                nd = crashed.pop()
                lines.append("OP RECOVER %d" % nd)
                # sometimes only a part of the node's processes is started again: the others must be gone
                partial = rng.random() < 0.25
                for p in range(nprocs):
                    if placement[p] == nd and not (partial and rng.random() < 0.5):
                        lines.append("OP ADDPROC %d %d" % (p, nd))
            else:
                nd = rng.randrange(nnodes)
                crashed.add(nd)
                lines.append("OP CRASH %d" % nd)
        else:
            lines.append("OP STEPS %d" % rng.choice([1, 2, 3]))
    lines.append("OP UNTILNOEVENTS")
    return ("SIM", sid, lines), feat, seed



def gen_crash_scenario(rng, sid, seed=None):
    """crash-heavy scripts: chatty processes on 2-3 nodes, long random delays (messages stay in flight), sometimes
    duplication; nodes are crashed with messages in flight in both directions, recovered (processes re-added) and
    crashed again before the old messages would have arrived; partial stepping in between"""
    nnodes = rng.choice([2, 3])
    nprocs = nnodes
    seed = seed if seed is not None else rng.randrange(1, 1 << 20)
    feat = {"timers": True, "override": False, "clock": False, "rand_progs": False, "drop": 0.0,
            "dupl": rng.choice([0.0, 0.0, 1.0, 0.5]), "corrupt": 0.0, "rand_delay": True, "crash": True, "netops": False,
            "skew": False, "links": False, "crash_stress": True}
    lines = ["SEED %d" % seed]
    for p in range(nprocs):
        others = [q for q in range(nprocs) if q != p]
        lines.append("PROG %d %d 0 0 2" % (p, rng.choice([4, 6])))
        for _ in range(2):
            acts = ["S %d %s" % (rng.choice(others), gen_mc.gen_msg(rng)) for _ in range(rng.choice([1, 2]))]
            if rng.random() < 0.5:
                acts.append("T %d %d 1" % (rng.randrange(2), f64_bits(rng.choice([0.5, 2.0, 6.0]))))
            lines.append("ROW %d %d %s" % (p, len(acts), " ".join(acts)))
    lines.append("DRAWS")
    for n in range(nnodes):
        lines.append("OP ADDNODE %d" % n)
    for p in range(nprocs):
        lines.append("OP ADDPROC %d %d" % (p, p))
    lines.append("OP NET DELAYS %d %d" % (f64_bits(rng.choice([1.0, 2.0])), f64_bits(rng.choice([5.0, 8.0]))))
    if feat["dupl"]:
        lines.append("OP NET DUPLRATE %d" % f64_bits(feat["dupl"]))
    crashed = set()
    for _ in range(rng.randint(10, 22)):
        r = rng.random()
        live = [p for p in range(nprocs) if p not in crashed]
        if r < 0.35 and live:
            lines.append("OP LOCAL %d %s" % (rng.choice(live), gen_mc.gen_msg(rng)))
        elif r < 0.5:
            lines.append("OP STEP")
        elif r < 0.58:
            lines.append("OP DURATION %d" % f64_bits(rng.choice([0.25, 0.5, 1.0])))
        elif r < 0.8:
            if crashed and rng.random() < 0.6:
                nd = rng.choice(sorted(crashed))
                crashed.discard(nd)
                lines.append("OP RECOVER %d" % nd)
                lines.append("OP ADDPROC %d %d" % (nd, nd))
            else:
                cand = [n for n in range(nnodes) if n not in crashed]
                if cand:
                    nd = rng.choice(cand)
                    crashed.add(nd)
                    lines.append("OP CRASH %d" % nd)
        else:
            lines.append("OP STEPS %d" % rng.choice([1, 2]))
    lines.append("OP UNTILNOEVENTS")
    for p in range(nprocs):
        if p not in crashed:
            lines.append("OP READ %d" % p)
    return ("SIM", sid, lines), feat, seed


def gen_scenario(rng, sid, feat=None, nops=None, seed=None, partial_readd=True):
    if feat is None and rng.random() < 0.2:
        return gen_link_scenario(rng, sid, seed)
    if feat is None and rng.random() < 0.18:
        return gen_timer_scenario(rng, sid, seed)
    if feat is None and rng.random() < 0.15:
        return gen_crash_scenario(rng, sid, seed)
    feat = feat or gen_features(rng)
    nnodes = rng.choice([1, 2, 2, 3])
    nprocs = rng.choice([2, 2, 3])
    nnames = rng.choice([1, 2])
    seed = seed if seed is not None else rng.randrange(1, 1 << 20)
    lines = ["SEED %d" % seed]
    mcfeat = {"timers": feat["timers"], "override": feat["override"]}
    placement = [rng.randrange(nnodes) for _ in range(nprocs)]
    for p in range(nprocs):
        cap = rng.choice([2, 3, 4])
        nrows = rng.choice([1, 2, 3])
        rectime = 1 if (feat["clock"] and rng.random() < 0.6) else 0
        nd = rng.choice([1, 2]) if (feat["rand_progs"] and rng.random() < 0.6) else 0
        lines.append("PROG %d %d %d %d %d" % (p, cap, rectime, nd, nrows))
        for _ in range(nrows):
            k = rng.choice([0, 1, 2, 2, 3])
            acts = [gen_mc.gen_action(rng, nprocs, nnames, mcfeat) for _ in range(k)]
            lines.append("ROW %d %d %s" % (p, k, " ".join(acts)))
    lines.append("DRAWS")      # filled in by the suite
    for n in range(nnodes):
        lines.append("OP ADDNODE %d" % n)
    for p in range(nprocs):
        lines.append("OP ADDPROC %d %d" % (p, placement[p]))
    if feat["skew"]:
        for n in range(nnodes):
            if rng.random() < 0.6:
                lines.append("OP SKEW %d %d" % (n, f64_bits(rng.choice([0.25, 1.5, 0.125]))))
    if feat["rand_delay"]:
        lines.append("OP NET DELAYS %d %d" % (f64_bits(rng.choice([0.0, 0.5, 1.0])), f64_bits(rng.choice([1.0, 2.0, 3.5]))))
    elif rng.random() < 0.5:
        # fixed delays include values that are not rounding-friendly: a fixed delay must be reproduced exactly
        lines.append("OP NET DELAY %d" % f64_bits(rng.choice([0.0, 0.5, 1.0, 2.0, 0.01, 7.3, 123.456])))
    if feat["drop"]:
        lines.append("OP NET DROPRATE %d" % f64_bits(feat["drop"]))
    if feat["dupl"]:
        lines.append("OP NET DUPLRATE %d" % f64_bits(feat["dupl"]))
    if feat["corrupt"]:
        lines.append("OP NET CORRUPTRATE %d" % f64_bits(feat["corrupt"]))
    crashed = set()
    n = nops if nops is not None else rng.randint(6, 26)
    for _ in range(n):
        r = rng.random()
        live_procs = [p for p in range(nprocs) if placement[p] not in crashed]
        if r < 0.30 and live_procs:
            lines.append("OP LOCAL %d %s" % (rng.choice(live_procs), gen_mc.gen_msg(rng, small=False)))
        elif r < 0.48:
            lines.append("OP STEP")
        elif r < 0.55:
            lines.append("OP STEPS %d" % rng.choice([0, 1, 2, 3, 5]))
        elif r < 0.63:
            lines.append("OP DURATION %d" % f64_bits(rng.choice([0.0, 0.5, 1.0, 1.5, 3.0])))
        elif r < 0.68 and live_procs:
            lines.append("OP UNTILLOCAL %d" % rng.choice(live_procs))
        elif r < 0.73 and live_procs:
            lines.append("OP UNTILLOCALMAX %d %d" % (rng.choice(live_procs), rng.choice([0, 1, 2, 4])))
        elif r < 0.76 and live_procs:
            lines.append("OP UNTILLOCALTIMEOUT %d %d" % (rng.choice(live_procs), f64_bits(rng.choice([0.0, 1.0, 2.5]))))
        elif r < 0.82 and live_procs:
            lines.append("OP READ %d" % rng.choice(live_procs))
        elif r < 0.90 and feat["netops"]:
            lines.append("OP NET " + gen_snetop(rng, nnodes))
        elif r < 0.97 and feat["crash"]:
            if crashed and rng.random() < 0.5:
                nd = rng.choice(sorted(crashed))
                crashed.discard(nd)
                lines.append("OP RECOVER %d" % nd)
                # sometimes only a part of the node's processes is started again: the others must be gone
                # (not in hand-off scenarios: a snapshot in which a located process is not installed is outside the
                # hypotheses of C04 / C15 - simulator and checker both panic on a delivery to it)
                partial = partial_readd and rng.random() < 0.25
                for p in range(nprocs):
                    if placement[p] == nd and not (partial and rng.random() < 0.5):
                        lines.append("OP ADDPROC %d %d" % (p, nd))
            else:
                nd = rng.randrange(nnodes)
                crashed.add(nd)
                lines.append("OP CRASH %d" % nd)
        else:
            lines.append("OP STEP")
    if rng.random() < 0.6:
        lines.append("OP UNTILNOEVENTS")
        for p in range(nprocs):
            if placement[p] not in crashed:
                lines.append("OP READ %d" % p)
    return ("SIM", sid, lines), feat, seed
