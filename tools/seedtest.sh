#!/bin/sh
# seedtest.sh <name> <worktree> <props...> : confirm a seeded change (suite passes with it, demo fails with it and
# passes without it), store it under /verif/seeded/<name>/, run the listed checks against it, undo.
set -u
NAME=$1; WT=$2; shift 2
export CARGO_TARGET_DIR=$WT/target CARGO_NET_OFFLINE=true
cd $WT || exit 2
DEMO=tests/seeded_demo.rs
echo "== suite with change (demo moved away)"; mv $DEMO /tmp/seeded_demo_$NAME.rs
cargo test --offline 2>&1 | grep -E "^test result|FAILED|failed" | head -8
mv /tmp/seeded_demo_$NAME.rs $DEMO
echo "== demo with change"; cargo test --offline --test seeded_demo 2>&1 | grep -E "^test result" | head -3
git apply -R patch.diff
echo "== demo without change"; cargo test --offline --test seeded_demo 2>&1 | grep -E "^test result" | head -3
git apply patch.diff
mkdir -p /verif/seeded/$NAME && cp patch.diff /verif/seeded/$NAME/ && cp $DEMO /verif/seeded/$NAME/ && cp NOTES.md /verif/seeded/$NAME/ 2>/dev/null
cd /verif
unset CARGO_TARGET_DIR
git -C /repo apply /verif/seeded/$NAME/patch.diff || exit 3
mkdir -p /verif/build/ev-backup && cp /verif/evidence/*.json /verif/build/ev-backup/
for P in "$@"; do ./check $P | tail -2; done
cp /verif/build/ev-backup/*.json /verif/evidence/
git -C /repo checkout -- .
git -C /repo status --short
