"""Generator of MC scenarios (systems of Script processes explored by the model checker)."""
from vlib import f64_bits
from gen_store import PAYLOADS, TIPS, bstr

DELAYS = [0.0, 0.5, 1.0, 1.0, 2.0]


# payload alphabet override (the Python twins need normalised JSON payloads)
PAYLOADS_OVERRIDE = None


def gen_msg(rng, small=True):
    if PAYLOADS_OVERRIDE is not None:
        return "%s %s" % (bstr(rng.choice(TIPS[:1] if small else TIPS)), bstr(rng.choice(PAYLOADS_OVERRIDE)))
    # the small alphabet: three short payloads and, less often, the two long ones that differ only in their tail
    pl = (PAYLOADS[:3] * 2 + PAYLOADS[-2:]) if small else PAYLOADS
    return "%s %s" % (bstr(rng.choice(TIPS[:1] if small else TIPS)), bstr(rng.choice(pl)))


def gen_action(rng, nprocs, nnames, feat, prefer_dst=None):
    r = rng.random()
    if r < 0.45:
        dst = prefer_dst if (prefer_dst is not None and rng.random() < 0.65) else rng.randrange(nprocs)
        return "S %d %s" % (dst, gen_msg(rng))
    if r < 0.60:
        # local messages of both types and of the whole payload alphabet (equal data under different types occur)
        return "L %s" % gen_msg(rng, small=rng.random() < 0.5)
    if r < 0.90 and feat["timers"]:
        # override of a pending timer leaves the old event in the store (known finding F10): optional
        once = 1 if (not feat["override"] or rng.random() < 0.5) else 0
        return "T %d %d %d" % (rng.randrange(nnames), f64_bits(rng.choice(DELAYS)), once)
    if feat["timers"]:
        return "C %d" % rng.randrange(nnames)
    return "L %s" % gen_msg(rng)


def clock_lines(skews, maxdepth=48):
    out = []
    for sk in sorted(set(skews) | {0.0}):
        for d in range(maxdepth + 1):
            out.append("CLOCK %d %d %d" % (d, f64_bits(sk), f64_bits(d / 10.0 + sk)))
    return out


def gen_system(rng, feat):
    nnodes = rng.choice([1, 2, 2, 3])
    nprocs = rng.choice([2, 2, 3])
    nnames = rng.choice([1, 2])
    lines = []
    skews = []
    for n in range(nnodes):
        sk = rng.choice([0.0, 0.0, 0.25]) if feat["clock"] else 0.0
        skews.append(sk)
        lines.append("NODE %d %d" % (n, f64_bits(sk)))
    placement = [rng.randrange(nnodes) for _ in range(nprocs)]
    # "sink": the last process is stateless and only echoes what it receives to its local outbox (one fixed local
    # message per kind of input): its process state never changes, its outbox records the ORDER of arrivals - states
    # that differ only in earlier outbox positions exist, and the state space stays finite without a depth bound
    sink = nprocs - 1 if feat.get("sink") else None
    if sink is not None:
        nprocs_eff = nprocs
    for p in range(nprocs):
        if p == sink:
            nrows = rng.choice([2, 3])
            lines.append("PROC %d %d %d %d %d %d" % (p, placement[p], 1, 2, 0, nrows))
            pls = list(PAYLOADS[:3])
            rng.shuffle(pls)
            for i in range(nrows):
                lines.append("ROW %d 1 L %s %s" % (p, bstr(TIPS[0]), bstr(pls[i % len(pls)])))
            continue
        cap = rng.choice([1, 2, 2, 3])
        nrows = rng.choice([1, 2, 3])
        rectime = 1 if (feat["clock"] and rng.random() < 0.5) else 0
        # flags: bit 0 = record the clock, bit 1 = stateless (relay / watchdog style process whose state and outbox
        # never change: only its bookkeeping - event log, counters, pending timers - does)
        stateless = 2 if (feat.get("stateless") and rng.random() < 0.6) else 0
        lines.append("PROC %d %d %d %d %d %d" % (p, placement[p], cap, rectime | stateless, 0, nrows))
        for _ in range(nrows):
            k = rng.choice([0, 1, 1, 2, 2, 3])
            acts = [gen_action(rng, nprocs, nnames, feat, prefer_dst=sink) for _ in range(k)]
            lines.append("ROW %d %d %s" % (p, k, " ".join(acts)))
    def rate(on):
        return f64_bits(0.5) if on else f64_bits(0.0)
    lines.append("NET %d %d %d %d %d" % (rate(feat["drop"]), rate(feat["dupl"]), rate(feat["corrupt"]),
                                         f64_bits(1.0), f64_bits(rng.choice([1.0, 2.0]))))
    lines += clock_lines(skews)
    return lines, nnodes, nprocs, placement


def gen_netop(rng, nnodes):
    r = rng.random()
    a, b = rng.randrange(nnodes), rng.randrange(nnodes)
    if r < 0.2:
        return "DROPIN %d" % a
    if r < 0.4:
        return "DROPOUT %d" % a
    if r < 0.55:
        return "DISABLELINK %d %d" % (a, b)
    if r < 0.65:
        return "DISCONNECT %d" % a
    if r < 0.75:
        return "PARTITION 1 %d 1 %d" % (a, b)
    if r < 0.85:
        return "RESET"
    return rng.choice(["DROPRATE", "DUPLRATE", "CORRUPTRATE"]) + " %d" % f64_bits(rng.choice([0.0, 0.5]))


def gen_features(rng):
    return {
        "timers": rng.random() < 0.6,
        "override": rng.random() < 0.25,
        "clock": rng.random() < 0.15,
        "drop": rng.random() < 0.25,
        "dupl": rng.random() < 0.15,
        "corrupt": rng.random() < 0.2,
        "crash": rng.random() < 0.2,
        "netops": rng.random() < 0.25,
        "mf": rng.random() < 0.2,
        "stateless": rng.random() < 0.3,
    }


def gen_callback(rng, feat, nnodes, nprocs, placement):
    lines = []
    if feat["netops"] and rng.random() < 0.5:
        lines.append("CB NET " + gen_netop(rng, nnodes))
    if feat["mf"]:
        lines.append("CB MODE 1")
    for _ in range(rng.choice([1, 1, 2])):
        p = rng.randrange(nprocs)
        lines.append("CB LOCAL %d %d %s" % (placement[p], p, gen_msg(rng)))
    if feat["netops"] and rng.random() < 0.5:
        lines.append("CB NET " + gen_netop(rng, nnodes))
    if feat["crash"]:
        lines.append("CB CRASH %d" % rng.randrange(nnodes))
    return lines


def gen_preds(rng, nprocs, depth_prune):
    lines = []
    r = rng.random()
    if r < 0.7:
        lines.append("PRED INV NONE")
    elif r < 0.85:
        lines.append("PRED INV OUTBOXMAX %d %d" % (rng.randrange(nprocs), rng.choice([0, 1, 2])))
    else:
        lines.append("PRED INV HISTMAX %d %d" % (rng.randrange(nprocs), rng.choice([1, 2, 3])))
    r = rng.random()
    if r < 0.75:
        lines.append("PRED GOAL NOEVENTS")
    elif r < 0.9:
        lines.append("PRED GOAL OUTBOXEQ %d %d" % (rng.randrange(nprocs), rng.choice([1, 2])))
    else:
        lines.append("PRED GOAL NONE")
    if depth_prune is not None:
        lines.append("PRED PRUNE DEPTHGT %d" % depth_prune)
    elif rng.random() < 0.15:
        lines.append("PRED PRUNE SENTGT %d" % rng.choice([1, 2]))
    else:
        lines.append("PRED PRUNE NONE")
    r = rng.random()
    if r < 0.6:
        lines.append("PRED COLLECT NONE")
    elif r < 0.8:
        lines.append("PRED COLLECT OUTBOXEQ %d %d" % (rng.randrange(nprocs), 1))
    elif r < 0.9:
        lines.append("PRED COLLECT DEPTHEQ %d" % rng.choice([1, 2]))
    else:
        lines.append("PRED COLLECT NOEVENTS")
    return lines


FUEL = 1500


def gen_base(rng, feat=None):
    """system + callback + state-based predicates (no RUN line)"""
    feat = feat or gen_features(rng)
    sysl, nnodes, nprocs, placement = gen_system(rng, feat)
    lines = list(sysl)
    cb = gen_callback(rng, feat, nnodes, nprocs, placement)
    preds = gen_preds(rng, nprocs, None)
    return {"sys": lines, "cb": cb, "preds": preds, "feat": feat, "nprocs": nprocs, "nnodes": nnodes}


def gen_timer_base(rng):
    """timer-order-heavy systems: two processes, 2-3 timer names with different delays set in one handler (so that
    later timers are withheld behind earlier ones), cancel_timer of names that may currently be withheld, issued from
    message handlers that can overtake the timers; no override of pending timers (set_timer_once only)"""
    nnodes = rng.choice([1, 2])
    nprocs = 2
    nnames = rng.choice([2, 3])
    placement = [rng.randrange(nnodes) for _ in range(nprocs)]
    delays = [0.5, 1.0, 1.0, 2.0, 3.0]
    lines = ["NODE %d 0" % n for n in range(nnodes)]
    # sometimes one process is stateless (its state never changes: only its timer bookkeeping does), so that the
    # bookkeeping must be restored exactly on backtracking for the contract to hold on sibling paths
    stateless_proc = rng.randrange(nprocs) if rng.random() < 0.4 else None
    for p in range(nprocs):
        nrows = rng.choice([2, 3])
        lines.append("PROC %d %d %d %d 0 %d" % (p, placement[p], rng.choice([2, 3]), 2 if p == stateless_proc else 0, nrows))
        for ri in range(nrows):
            acts = []
            if ri == 0:
                # arm several timers at once, non-decreasing delays more often than not
                ds = [rng.choice(delays) for _ in range(nnames)]
                if rng.random() < 0.7:
                    ds.sort()
                names = list(range(nnames))
                rng.shuffle(names)
                for nm, d in zip(names, ds):
                    acts.append("T %d %d 1" % (nm, f64_bits(d)))
                if rng.random() < 0.7:
                    acts.append("S %d %s" % (rng.randrange(nprocs), gen_msg(rng)))
            else:
                for _ in range(rng.choice([1, 2, 3])):
                    r = rng.random()
                    if r < 0.45:
                        acts.append("C %d" % rng.randrange(nnames))
                    elif r < 0.7:
                        acts.append("T %d %d 1" % (rng.randrange(nnames), f64_bits(rng.choice(delays))))
                    else:
                        acts.append("S %d %s" % (rng.randrange(nprocs), gen_msg(rng)))
            lines.append("ROW %d %d %s" % (p, len(acts), " ".join(acts)))
    lines.append("NET 0 0 0 %d %d" % (f64_bits(1.0), f64_bits(1.0)))
    lines += clock_lines([0.0])
    cb = []
    for p in range(nprocs):
        if p == 0 or rng.random() < 0.6:
            cb.append("CB LOCAL %d %d %s" % (placement[p], p, gen_msg(rng)))
    feat = {"timers": True, "override": False, "clock": False, "drop": False, "dupl": False, "corrupt": False, "crash": False,
            "netops": False, "mf": rng.random() < 0.2, "stateless": stateless_proc is not None, "timer_rich": True}
    if feat["mf"]:
        cb.insert(0, "CB MODE 1")
    preds = ["PRED INV NONE", "PRED GOAL NOEVENTS", "PRED PRUNE NONE", "PRED COLLECT NONE"]
    return {"sys": lines, "cb": cb, "preds": preds, "feat": feat, "nprocs": nprocs, "nnodes": nnodes}


def gen_fanin_base(rng):
    """fan-in into an order-recording stateless sink: one or two senders emit 3-4 messages with distinct payloads to
    the sink in one handler call; the sink echoes each to its local outbox.  Different delivery orders converge to
    equal process states and equal pending events with outboxes that differ only in EARLIER positions."""
    nnodes = rng.choice([1, 2, 3])
    nsend = rng.choice([1, 2])
    nprocs = nsend + 1
    sink = nprocs - 1
    placement = [rng.randrange(nnodes) for _ in range(nprocs)]
    lines = ["NODE %d 0" % n for n in range(nnodes)]
    pls = list(PAYLOADS)
    # "longpair": the two long payloads that differ only in their tail travel together, and the sink answers every
    # input alike: states then differ ONLY in the tail of a long payload (in a pending event or not at all)
    longpair = rng.random() < 0.4
    for p in range(nsend):
        rng.shuffle(pls)
        k = rng.choice([3, 3, 4]) if nsend == 1 else rng.choice([2, 3])
        if longpair and p == 0:
            chosen = [PAYLOADS[-2], PAYLOADS[-1]] + pls[:k - 2]
            rng.shuffle(chosen)
        else:
            chosen = [pls[i % len(pls)] for i in range(k)]
        acts = ["S %d %s %s" % (sink, bstr(TIPS[0]), bstr(c)) for c in chosen]
        lines.append("PROC %d %d 1 0 0 1" % (p, placement[p]))
        lines.append("ROW %d %d %s" % (p, len(acts), " ".join(acts)))
    nrows = 1 if longpair else rng.choice([2, 3, 3])
    lines.append("PROC %d %d 1 2 0 %d" % (sink, placement[sink], nrows))
    outs = list(PAYLOADS[:3])
    rng.shuffle(outs)
    for i in range(nrows):
        lines.append("ROW %d 1 L %s %s" % (sink, bstr(TIPS[0]), bstr(outs[i % len(outs)])))
    lines.append("NET 0 0 0 %d %d" % (f64_bits(1.0), f64_bits(1.0)))
    lines += clock_lines([0.0])
    cb = ["CB LOCAL %d %d %s" % (placement[p], p, gen_msg(rng)) for p in range(nsend)]
    feat = {"timers": False, "override": False, "clock": False, "drop": False, "dupl": False, "corrupt": False, "crash": False,
            "netops": False, "mf": False, "stateless": False, "sink": True, "fanin": True}
    preds = ["PRED INV NONE", "PRED GOAL NOEVENTS", "PRED PRUNE NONE", "PRED COLLECT NONE"]
    return {"sys": lines, "cb": cb, "preds": preds, "feat": feat, "nprocs": nprocs, "nnodes": nnodes}


def script_row(idx, key, nrows, stateless):
    """the row the table-driven process selects (harness/src/script_proc.rs, Model/Script.v)"""
    h = 0 if stateless else (idx * 31) % (1 << 32)
    for c in key:
        h = (h * 131 + c) % (1 << 32)
    return h % nrows


def gen_relay_longpair_base(rng):
    """a sender emits the two long payloads that differ only in their tail to a STATELESS relay, which forwards each to
    a stateless sink: after both were relayed (in either order) the pending events are {id 2, id 3} with the two
    payloads swapped - two states that differ only in the tails of long payloads under equal ids"""
    nnodes = rng.choice([1, 2, 3])
    placement = [rng.randrange(nnodes) for _ in range(3)]
    la, lb = PAYLOADS[-2], PAYLOADS[-1]
    tip = TIPS[0]
    lines = ["NODE %d 0" % n for n in range(nnodes)]
    first = [la, lb]
    rng.shuffle(first)
    lines.append("PROC 0 %d 1 0 0 1" % placement[0])
    lines.append("ROW 0 2 S 1 %s %s S 1 %s %s" % (bstr(tip), bstr(first[0]), bstr(tip), bstr(first[1])))
    # the relay's two rows, placed so that the row selected for input X forwards X
    def key(data):
        return [1, 0] + list(tip) + [256] + list(data)
    ra, rb = script_row(0, key(la), 2, True), script_row(0, key(lb), 2, True)
    lines.append("PROC 1 %d 1 2 0 2" % placement[1])
    if ra != rb:
        rows = {ra: la, rb: lb}
        for r in (0, 1):
            lines.append("ROW 1 1 S 2 %s %s" % (bstr(tip), bstr(rows[r])))
    else:
        # both inputs select the same row: forward the pair in a fixed order instead (still converging)
        for r in (0, 1):
            lines.append("ROW 1 2 S 2 %s %s S 2 %s %s" % (bstr(tip), bstr(la), bstr(tip), bstr(lb)))
    lines.append("PROC 2 %d 1 2 0 1" % placement[2])
    lines.append("ROW 2 1 L %s %s" % (bstr(tip), bstr(PAYLOADS[0])))
    lines.append("NET 0 0 0 %d %d" % (f64_bits(1.0), f64_bits(1.0)))
    lines += clock_lines([0.0])
    cb = ["CB LOCAL %d 0 %s" % (placement[0], gen_msg(rng))]
    feat = {"timers": False, "override": False, "clock": False, "drop": False, "dupl": False, "corrupt": False, "crash": False,
            "netops": False, "mf": False, "stateless": False, "sink": True, "fanin": True, "longpair": True}
    preds = ["PRED INV NONE", "PRED GOAL NOEVENTS", "PRED PRUNE NONE", "PRED COLLECT NONE"]
    return {"sys": lines, "cb": cb, "preds": preds, "feat": feat, "nprocs": 3, "nnodes": nnodes}


def gen_twin_delay_base(rng):
    """a sender emits two messages to a STATELESS process that arms the same timer ONCE on either, with another delay
    per message: after both arrived (in either order) the two histories differ only in the delay of the pending timer
    (equal ids, equal names, equal process states).  A second timer armed on a third message is withheld behind the
    first or not, depending on that delay."""
    nnodes = rng.choice([1, 2, 2])
    placement = [rng.randrange(nnodes) for _ in range(2)]
    tip = TIPS[0]
    pls = list(PAYLOADS[:6])
    rng.shuffle(pls)
    def key(data):
        return [1, 0] + list(tip) + [256] + list(data)
    # three payloads that select three different rows of the stateless process, while the timer firings select
    # other (empty) rows: the process never re-arms, so the state space is finite without a depth bound
    pick = None
    for nrows in (5, 6, 7, 8, 9, 11):
        free = {script_row(0, [3, 0], nrows, True), script_row(0, [3, 1], nrows, True)}
        for a in pls:
            for b in pls:
                for z in pls:
                    rs = [script_row(0, key(x), nrows, True) for x in (a, b, z)]
                    if len({a, b, z}) == 3 and len(set(rs)) == 3 and not (set(rs) & free):
                        pick = (a, b, z, nrows)
                        break
                if pick:
                    break
            if pick:
                break
        if pick:
            break
    lines = ["NODE %d 0" % n for n in range(nnodes)]
    if pick is None:
        return gen_relay_longpair_base(rng)
    a, b, z, nrows = pick
    order = [a, b, z]
    rng.shuffle(order)
    lines.append("PROC 0 %d 1 0 0 1" % placement[0])
    lines.append("ROW 0 3 " + " ".join("S 1 %s %s" % (bstr(tip), bstr(x)) for x in order))
    d1, d2 = rng.choice([(1.0, 10.0), (10.0, 1.0), (0.5, 3.0), (2.0, 1.0)])
    d3 = rng.choice([5.0, 2.0, 0.75])
    rows = {script_row(0, key(a), nrows, True): "1 T 0 %d 1" % f64_bits(d1),
            script_row(0, key(b), nrows, True): "1 T 0 %d 1" % f64_bits(d2),
            script_row(0, key(z), nrows, True): "1 T 1 %d 1" % f64_bits(d3)}
    lines.append("PROC 1 %d 1 2 0 %d" % (placement[1], nrows))
    for r in range(nrows):
        lines.append("ROW 1 %s" % rows.get(r, "0 "))
    lines.append("NET 0 0 0 %d %d" % (f64_bits(1.0), f64_bits(1.0)))
    lines += clock_lines([0.0])
    cb = ["CB LOCAL %d 0 %s" % (placement[0], gen_msg(rng))]
    feat = {"timers": True, "override": False, "clock": False, "drop": False, "dupl": False, "corrupt": False, "crash": False,
            "netops": False, "mf": False, "stateless": True, "twin_delay": True}
    preds = ["PRED INV NONE", "PRED GOAL NOEVENTS", "PRED PRUNE NONE", "PRED COLLECT NONE"]
    return {"sys": lines, "cb": cb, "preds": preds, "feat": feat, "nprocs": 2, "nnodes": nnodes}


def gen_crash_base(rng):
    """crashes with a lot pending: several processes per node, timers re-armed under the same name (also while
    still pending), messages in both directions; the callback crashes a node after its processes were started"""
    nnodes = 2
    nprocs = rng.choice([3, 4])
    placement = [p % nnodes for p in range(nprocs)]
    delays = [0.5, 1.0, 2.0]
    lines = ["NODE 0 0", "NODE 1 0"]
    for p in range(nprocs):
        nrows = rng.choice([1, 2])
        lines.append("PROC %d %d %d 0 0 %d" % (p, placement[p], rng.choice([1, 2, 2]), nrows))
        for _ in range(nrows):
            acts = []
            for _ in range(rng.choice([2, 3, 4])):
                r = rng.random()
                if r < 0.45:
                    acts.append("T %d %d %d" % (rng.randrange(2), f64_bits(rng.choice(delays)), rng.choice([0, 0, 1])))
                elif r < 0.9:
                    acts.append("S %d %s" % (rng.randrange(nprocs), gen_msg(rng)))
                else:
                    acts.append("C %d" % rng.randrange(2))
            lines.append("ROW %d %d %s" % (p, len(acts), " ".join(acts)))
    lines.append("NET 0 0 0 %d %d" % (f64_bits(1.0), f64_bits(1.0)))
    lines += clock_lines([0.0])
    cb = []
    for p in rng.sample(range(nprocs), rng.choice([2, 3])):
        cb.append("CB LOCAL %d %d %s" % (placement[p], p, gen_msg(rng)))
    cb.append("CB CRASH %d" % rng.randrange(nnodes))
    feat = {"timers": True, "override": True, "clock": False, "drop": False, "dupl": False, "corrupt": False, "crash": True,
            "netops": False, "mf": False, "stateless": False, "crash_rich": True}
    preds = ["PRED INV NONE", "PRED GOAL NOEVENTS", "PRED PRUNE NONE", "PRED COLLECT NONE"]
    return {"sys": lines, "cb": cb, "preds": preds, "feat": feat, "nprocs": nprocs, "nnodes": nnodes}


def variant(base, sid, strategy, vm, debug=0, repeat=1, depth_prune=None):
    preds = list(base["preds"])
    if base["feat"].get("stateless") and depth_prune is None:
        depth_prune = 5        # stateless processes can exchange messages forever: bound the exploration by depth
    if depth_prune is not None:
        preds = [l for l in preds if not l.startswith("PRED PRUNE")] + ["PRED PRUNE DEPTHGT %d" % depth_prune]
    lines = list(base["sys"]) + preds
    for _ in range(repeat):
        lines += list(base["cb"]) + ["RUN %s %s %d %d" % (strategy, vm, debug, FUEL)]
    return ("MC", sid, lines)


def staged(rng, base, sid, strategy, vm, debug=1):
    """stage 1 collects, stage 2 continues from the collected set after a further callback"""
    preds1 = [l for l in base["preds"] if not l.startswith("PRED COLLECT") and not l.startswith("PRED GOAL")]
    # collect predicates that accept SEVERAL states on one path (start states reachable from one another) as
    # well as frontiers
    coll = rng.choice(["PRED COLLECT DEPTHEQ %d" % rng.choice([1, 2]),
                       "PRED COLLECT OUTBOXEQ %d 1" % rng.randrange(base["nprocs"]),
                       "PRED COLLECT NOEVENTS",
                       "PRED COLLECT DEPTHLE %d" % rng.choice([1, 2]),
                       "PRED COLLECT DEPTHLE %d" % rng.choice([2, 3]),
                       "PRED COLLECT ALL"])
    goal1 = rng.choice(["PRED GOAL NOEVENTS", "PRED GOAL DEPTHGE %d" % rng.choice([2, 3]), "PRED GOAL DEPTHGE 3"])
    if base["feat"].get("stateless"):
        preds1 = [l for l in preds1 if not l.startswith("PRED PRUNE")] + ["PRED PRUNE DEPTHGT 5"]
    lines = list(base["sys"]) + preds1 + [coll, goal1] + list(base["cb"])
    lines.append("RUN %s %s %d %d" % (strategy, vm, debug, FUEL))
    # stage 2 (sometimes with an invariant that is likely to break in the second stage: a staged run that FAILS must
    # leave the checker rolled back as well)
    lines += ["PRED COLLECT NONE", "PRED GOAL NOEVENTS"]
    if rng.random() < 0.3:
        lines.append("PRED INV HISTMAX %d %d" % (rng.randrange(base["nprocs"]), rng.choice([1, 2])))
    crashed = set(l.split()[2] for l in base["cb"] if l.startswith("CB CRASH"))
    three = rng.random() < 0.3
    if rng.random() < (0.6 if three else 0.25):
        # a crash in the stage-2 callback: the start states then differ only in what the crashed node had done
        nd = str(rng.randrange(base["nnodes"]))
        crashed.add(nd)
        lines.append("CB CRASH %s" % nd)
    if rng.random() < 0.5:
        p = rng.randrange(base["nprocs"])
        node = [l for l in base["sys"] if l.startswith("PROC %d " % p)][0].split()[2]
        if node not in crashed:     # a local message to a crashed node trips the documented assertion
            lines.append("CB LOCAL %s %d %s" % (node, p, gen_msg(rng)))
    if three:
        # a THIRD stage: stage 2 collects as well (its start states differ in what happened before its callback - e.g.
        # in what a node had done before it was crashed there), stage 3 continues from those
        lines = [l for l in lines if l != "PRED COLLECT NONE"]
        lines.append(rng.choice(["PRED COLLECT DEPTHLE 1", "PRED COLLECT ALL", "PRED COLLECT ALL", "PRED COLLECT NOEVENTS",
                                 "PRED COLLECT OUTBOXEQ %d 1" % rng.randrange(base["nprocs"])]))
    lines.append("RUNFROM %s %s %d %d" % (strategy, vm, debug, FUEL))
    if three:
        lines += ["PRED COLLECT NONE", "PRED INV NONE", "PRED GOAL NOEVENTS"]
        live = [p for p in range(base["nprocs"])
                if [l for l in base["sys"] if l.startswith("PROC %d " % p)][0].split()[2] not in crashed]
        if live and rng.random() < 0.7:
            p = rng.choice(live)
            node = [l for l in base["sys"] if l.startswith("PROC %d " % p)][0].split()[2]
            lines.append("CB LOCAL %s %d %s" % (node, p, gen_msg(rng)))
        lines.append("RUNFROM %s %s %d %d" % (strategy, vm, debug, FUEL))
    return ("MC", sid, lines)


def gen_scenario(rng, sid, feat=None, strategy=None, vm=None, state_based=True):
    feat = feat or gen_features(rng)
    sysl, nnodes, nprocs, placement = gen_system(rng, feat)
    lines = list(sysl)
    lines += gen_callback(rng, feat, nnodes, nprocs, placement)
    vm = vm or rng.choice(["FULL", "PARTIAL", "DISABLED"])
    strategy = strategy or rng.choice(["BFS", "DFS"])
    # without a cache the graph is walked as a tree: bound it by depth; state-based scenarios use no depth predicate
    depth_prune = rng.choice([4, 5, 6]) if (vm == "DISABLED" or not state_based) else None
    lines += gen_preds(rng, nprocs, depth_prune)
    lines.append("RUN %s %s %d %d" % (strategy, vm, rng.choice([0, 1]), FUEL))
    return ("MC", sid, lines), feat
