#!/usr/bin/env python3
"""./check <Cxx> [--tier quick|thorough] [--replay file]

Decides one property: (1) rebuild model, proofs, extraction, harness from the current /repo working tree;
(2) proof obligations of the property (Props/<id>.v compiles, assumptions allow-listed, statements pinned,
no forbidden construct, Gen/ExtractedOK holds); (3) correspondence model <-> implementation on generated
scenarios; (4) property monitors on the implementation's own histories; (5) verdict + evidence."""
import argparse
import json
import os
import random
import sys
import time

sys.path.insert(0, os.path.dirname(os.path.abspath(__file__)))
import vlib
from vlib import ROOT
import suites


def main():
    ap = argparse.ArgumentParser()
    ap.add_argument("prop")
    ap.add_argument("--tier", default=os.environ.get("VERIF_TIER", "quick"))
    ap.add_argument("--replay", default=None)
    ap.add_argument("--no-build", action="store_true")
    a = ap.parse_args()
    tier = "thorough" if a.tier == "thorough" else "quick"
    seed = int(os.environ.get("VERIF_SEED", "20260930"))
    prop = a.prop
    if prop not in suites.PROPERTIES:
        print("unknown or unclaimed property " + prop)
        return 3
    t0 = time.time()
    spec = suites.PROPERTIES[prop]

    # ---- 1. rebuild --------------------------------------------------------------------------------
    if a.no_build:
        b = vlib.BuildResult()
    else:
        b = vlib.build_all()
    broken = []   # (kind, name, detail): proof obligations / correspondences that no longer check
    if not b.extract_ok:
        broken.append(("extractor", "tools/extract.py", b.coq_log[-800:]))
    if not b.coq_ok:
        broken.append(("proof", b.coq_failed_file or "coq build", b.coq_log[-1500:]))
    if not b.ocaml_ok:
        broken.append(("model", "extraction / OCaml driver", b.ocaml_log[-1500:]))
    if not b.harness_ok:
        broken.append(("correspondence", "harness does not build against /repo working tree", b.harness_log[-2500:]))

    # ---- 2. proof obligations ----------------------------------------------------------------------
    pr = vlib.check_props(prop) if b.coq_ok else {"obligations": 0, "discharged": 0, "theorems": [],
                                                  "failures": ["coq build failed"], "assumptions": {}}
    for f in pr["failures"]:
        if f != "coq build failed":
            broken.append(("proof", "Props/%s.v" % prop, f))

    # thorough tier: the independent checker re-checks the property's compiled theorems and everything they depend on
    coqchk_summary = None
    if tier == "thorough" and b.coq_ok and not pr["failures"]:
        rc, out = vlib.sh("timeout 2400 coqchk -silent -o -Q coq/theories ASV -Q build/props '' %s 2>&1" % prop, cwd=ROOT, timeout=2500)
        tail = out[-900:]
        ok = rc == 0 and "Axioms: <none>" in out and "type-in-type: <none>" in out and "unsafe (co)fixpoints: <none>" in out \
            and "positivity is assumed: <none>" in out
        coqchk_summary = "coqchk -o: " + ("Axioms <none>, no type-in-type, no unsafe fixpoints, no assumed positivity" if ok else tail)
        if not ok:
            broken.append(("proof", "coqchk Props/%s" % prop, tail))

    if a.replay:
        return suites.replay(prop, a.replay)

    # ---- 3/4. correspondence + monitors ------------------------------------------------------------
    ctx = suites.Ctx(prop, tier, seed)
    can_run_impl = b.harness_ok and os.path.exists(vlib.HARNESS_BIN)
    can_run_model = b.ocaml_ok and os.path.exists(vlib.MODEL_BIN)
    def run_suite(suite):
        # an observation the machinery cannot interpret (a suite that raises) is a correspondence that no longer checks
        try:
            suite(ctx, can_run_model)
        except Exception:
            import traceback
            broken.append(("correspondence", "suite %s could not interpret the implementation's observation" % suite.__name__,
                           traceback.format_exc()[-1200:]))
    if can_run_impl:
        for suite in spec["suites"]:
            run_suite(suite)
    # a disagreement model/impl is a broken correspondence
    for d in ctx.disagreements[:3]:
        broken.append(("correspondence", d["suite"], "first difference: %s" % json.dumps(d["diff"])))

    # ---- widen the search when something is broken but no monitor failed ----------------------------
    def relevant_failures():
        return [mf for mf in ctx.monitor_failures if ":" not in mf["clause"] or mf["clause"].startswith(prop + ":")]
    if broken and not relevant_failures() and can_run_impl:
        ctx.widen = True
        for k in range(1, 1 + int(os.environ.get("VERIF_WIDEN", "5"))):
            ctx.seed = seed + 7919 * k
            for suite in spec["suites"]:
                run_suite(suite)
            if relevant_failures():
                break
        ctx.seed = seed

    # ---- 5. verdict ----------------------------------------------------------------------------------
    known = [f for f in vlib.load_known()["findings"] if prop in f.get("properties", []) and f.get("status") == "known"]
    violations = 0
    lines = []
    unmatched = []
    # a monitor clause "Cxx:name" belongs to property Cxx; unprefixed clauses belong to the property being checked
    relevant = [mf for mf in ctx.monitor_failures if ":" not in mf["clause"] or mf["clause"].startswith(prop + ":")]
    for mf in relevant:
        k = suites.match_known(mf, known)
        if k is None:
            unmatched.append(mf)
        else:
            h = ctx.known_hits.setdefault(k["id"], {"id": k["id"], "what": k["what"], "count": 0})
            h["count"] += 1
    for k in known:
        if k["id"] not in ctx.known_hits:
            lines.append("note: known finding %s (%s) was not reproduced by this run" % (k["id"], k["what"]))
    for kf in ctx.known_hits.values():
        lines.append("KNOWN-FINDING: property=%s %s %s" % (prop, kf["id"], kf["what"]))
    if unmatched:
        mf = unmatched[0]
        path = vlib.write_replay(prop, mf["clause"], {
            "property": prop, "kind": "monitor", "clause": mf["clause"], "detail": mf["detail"],
            "scenario": mf.get("scenario"), "impl_observation": mf.get("impl"), "expected": mf.get("expected"),
            "broken_obligations": [list(x) for x in broken], "seed": mf.get("seed", seed),
            "how_to_replay": "./check %s --replay <this file>" % prop})
        lines.append("VIOLATION property=%s replay=%s" % (prop, os.path.relpath(path, ROOT)))
        violations = len(unmatched)
    elif broken:
        d = ctx.disagreements[0] if ctx.disagreements else None
        path = vlib.write_replay(prop, "unchecked", {
            "property": prop, "kind": "no-failing-input-found",
            "no_longer_checks": [{"kind": k, "name": n, "detail": dt} for k, n, dt in broken],
            "smallest_disagreement": d, "seed": seed,
            "searched": {"scenarios": ctx.evaluations,
                         "monitor_clauses": sorted(c for c in ctx.clauses if ":" not in c or c.startswith(prop + ":"))}})
        lines.append("VIOLATION property=%s replay=%s no-failing-input-found" % (prop, os.path.relpath(path, ROOT)))
        violations = 1

    wall = time.time() - t0
    coverage = {
        "obligations": max(pr["obligations"], 1),
        "discharged": pr["discharged"],
        "checker_cmd": "cd coq && coq_makefile -f _CoqProject -o Makefile && make -j16 && "
                       "coqc -Q theories ASV theories/Props/%s.v" % prop,
        "trusted_base": vlib.TRUSTED_BASE + spec.get("trusted_extra", []),
        "theorems": pr["theorems"],
        "print_assumptions": pr["assumptions"],
        "proof_failures": pr["failures"],
        "coqchk": coqchk_summary,
        "evaluations": ctx.evaluations,
        "distinct_nontrivial": len(ctx.nontrivial),
        "rule": spec["rule"],
        "samples": ctx.samples[:3],
        "traces_validated_against_impl": ctx.validated,
        "disagreements_model_vs_impl": len(ctx.disagreements),
        "monitor_failures": len(relevant),
        "monitor_failures_other_properties": len(ctx.monitor_failures) - len(relevant),
        "monitor_clauses": sorted(c for c in ctx.clauses if ":" not in c or c.startswith(prop + ":")),
        "known_finding_hits": {k: v["count"] for k, v in ctx.known_hits.items()},
        "distribution": ctx.distribution,
        "build_seconds": {k: round(v, 1) for k, v in b.seconds.items()},
        "widened_search": ctx.widen,
    }
    vlib.write_evidence(prop, tier, seed, coverage, spec["assumptions"], wall, violations)
    for l in lines:
        print(l)
    print("%s %s tier=%s seed=%d scenarios=%d nontrivial=%d theorems=%d/%d disagreements=%d wall=%.1fs" % (
        prop, "HELD" if violations == 0 else "VIOLATED", tier, seed, ctx.evaluations, len(ctx.nontrivial),
        pr["discharged"], pr["obligations"], len(ctx.disagreements), wall))
    return 1 if violations else 0


if __name__ == "__main__":
    sys.exit(main())
