#!/usr/bin/env python3
"""seedregress.py [name...]: apply each seeded change to /repo's working tree, run the checks of the properties it
breaks (meta.json "breaks"), record verdict + failing clause, undo.  Writes seeded/RESULTS.json."""
import json, os, subprocess, sys, re
ROOT = os.path.dirname(os.path.dirname(os.path.abspath(__file__)))
names = sys.argv[1:] or sorted(d for d in os.listdir(ROOT + "/seeded") if os.path.isdir(ROOT + "/seeded/" + d))
resp = ROOT + "/seeded/RESULTS.json"
res = json.load(open(resp)) if os.path.exists(resp) else {}
assert subprocess.run(["git", "-C", "/repo", "status", "--short", "--untracked-files=no"], capture_output=True, text=True).stdout.strip() == "", "/repo dirty"
# the evidence files must describe runs on the UNCHANGED tree: keep them aside while the seeded changes are applied
import shutil, tempfile
ev_backup = tempfile.mkdtemp(prefix="asv-evidence-")
for f in os.listdir(ROOT + "/evidence"):
    shutil.copy2(ROOT + "/evidence/" + f, ev_backup)
for n in names:
    d = ROOT + "/seeded/" + n
    meta = json.load(open(d + "/meta.json"))
    if subprocess.run(["git", "-C", "/repo", "apply", d + "/patch.diff"]).returncode != 0:
        res[n] = {"error": "patch does not apply"}
        continue
    try:
        out = {}
        for p in meta["breaks"]:
            r = subprocess.run([ROOT + "/check", p], capture_output=True, text=True, cwd=ROOT,
                               env=dict(os.environ, VERIF_WIDEN=os.environ.get("VERIF_WIDEN", "1")))
            v = [l for l in r.stdout.split("\n") if l.startswith("VIOLATION")]
            clause = None
            if v:
                m = re.search(r"replay=(\S+)", v[0])
                try:
                    rp = json.load(open(ROOT + "/" + m.group(1)))
                    clause = rp.get("clause") or rp.get("kind")
                    if rp.get("kind") == "no-failing-input-found":
                        clause += ": " + "; ".join("%s %s" % (x["kind"], x["name"]) for x in rp["no_longer_checks"][:3])
                except Exception as e:
                    clause = "?" + str(e)
            out[p] = {"exit": r.returncode, "violation": v[0] if v else None, "clause": clause,
                      "summary": r.stdout.strip().split("\n")[-1]}
            print(n, p, r.returncode, clause, flush=True)
        res[n] = out
    finally:
        subprocess.run(["git", "-C", "/repo", "checkout", "--", "."])
    json.dump(res, open(resp, "w"), indent=1)
for f in os.listdir(ev_backup):
    shutil.copy2(ev_backup + "/" + f, ROOT + "/evidence/" + f)
shutil.rmtree(ev_backup)
# leave the build in the state of the unchanged tree
subprocess.run([sys.executable, "-c", "import sys; sys.path.insert(0,'%s/tools'); import vlib; vlib.build_all()" % ROOT])
