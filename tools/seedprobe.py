#!/usr/bin/env python3
"""seedprobe.py <suite> [seed]: run one suite against the current /repo tree and print disagreements / monitor failures"""
import sys, collections
sys.path.insert(0, '/verif/tools')
import suites, vlib
r = vlib.build_all()
print("build", r.coq_ok, r.ocaml_ok, r.harness_ok)
ctx = suites.Ctx("X", "quick", int(sys.argv[2]) if len(sys.argv) > 2 else 1)
getattr(suites, sys.argv[1])(ctx, True)
print("evals", ctx.evaluations, "disagree", len(ctx.disagreements), "monfails", len(ctx.monitor_failures),
      dict(collections.Counter(m["clause"] for m in ctx.monitor_failures)))
for m in ctx.monitor_failures[:3]:
    print(m["clause"], m["detail"])
for d in ctx.disagreements[:2]:
    print(d["suite"], str(d["diff"])[:300])
