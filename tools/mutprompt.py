#!/usr/bin/env python3
"""mutprompt.py <Cxx> <worktree>: print the prompt given to a fresh sub-agent that seeds a property-breaking change.
The agent receives only the property text and its own scratch worktree (nothing from /verif)."""
import json, sys
pid, wt = sys.argv[1], sys.argv[2]
p = [json.loads(l) for l in open('/verif/properties.jsonl') if json.loads(l)['id'] == pid][0]
print("""You are a software engineer helping to evaluate a verification effort by SEEDING a realistic defect. You work ONLY inside the git worktree directory given below (a checkout of the Rust crate `anysystem`: a framework for deterministic discrete-event simulation and explicit-state model checking of message-passing distributed systems). Do not read or write anything under /verif, /repo, or any other directory under /tmp than your worktree. The crate builds offline: always pass `--offline` to cargo and set `CARGO_TARGET_DIR=<worktree>/target` so that you do not share build output with anyone (e.g. `CARGO_TARGET_DIR=$PWD/target cargo test --offline`). The existing test suite is `cargo test --offline` (166 tests: unit tests in src/mc/*.rs and tests/test_mc.rs, tests/test_python_mc.rs) and currently passes.

Your job: produce a SMALL change to the crate's source (under src/ or python/ only; not tests, not Cargo.toml; and do not touch anything guarded by `#[cfg(anysystem_verif)]`) that BREAKS the semantic property stated below while (1) the crate still compiles and (2) the whole existing test suite still passes unedited. The change should look like a plausible programming mistake or a well-meant "optimisation"/refactoring, not sabotage; and it should need something SPECIFIC to manifest - a particular interleaving, a crash or fault at a particular point, a multi-step sequence of operations, an unusual input, or two cooperating sites that each look fine alone - not something that ordinary use would expose at once.

Deliver, inside the worktree:
  1. the change applied to the working tree (uncommitted), and the same as `patch.diff` at the worktree root (`git diff -- src python > patch.diff`);
  2. a demonstration - a small self-contained Rust integration test file `tests/seeded_demo.rs` (standalone test file; it is picked up by cargo automatically), using only the public API of the crate, that FAILS with your change and PASSES without it (verify both, e.g. with `git apply -R patch.diff` / `git apply patch.diff`);
  3. `NOTES.md`: which clause of the property is broken, what is needed for the defect to manifest, exactly which commands you ran to show (a) the suite passes with the change (move the demo file away for that run), (b) the demo fails with the change, (c) the demo passes without it.
Budget: about 45 minutes. If your first idea is caught by the existing tests, try another; report honestly if you cannot find one. In your final report give: the diff, what manifests it.

WORKTREE: %s

PROPERTY %s: %s

Statement: %s

Quantifier: %s

Anchored in files: %s""" % (wt, pid, p['title'], p['statement'], p['quantifier']['text'], ', '.join(p['anchors']['files'])))
