"""Shared machinery of the checks: builds, running model and implementation, diffing, verdicts, evidence."""
import fcntl
import hashlib
import json
import os
import re
import struct
import subprocess
import sys
import time

ROOT = os.path.dirname(os.path.dirname(os.path.abspath(__file__)))
REPO = "/repo"
BUILD = os.path.join(ROOT, "build")
COQ = os.path.join(ROOT, "coq")
EXTRACTED = os.path.join(BUILD, "extracted")
MODEL_BIN = os.path.join(BUILD, "model")
HARNESS_DIR = os.path.join(ROOT, "harness")
HARNESS_BIN = os.path.join(BUILD, "cargo-target", "debug", "harness")
EVIDENCE = os.path.join(ROOT, "evidence")
REPLAYS = os.path.join(ROOT, "replays")
WORK = os.path.join(BUILD, "work")

FORBIDDEN = re.compile(
    r"\b(Admitted|admit|Axiom|Axioms|Parameter|Parameters|Conjecture|Conjectures|Admit Obligations)\b"
    r"|Unset\s+Guard|bypass_check|type-in-type|impredicative-set|Unset\s+Universe\s+Checking|Unset\s+Positivity")

TRUSTED_BASE = [
    "Coq 8.16.1 kernel (coqc; full .vo build, no -vos/-vok; no native_compute)",
    "extraction: ExtrOcamlBasic directives only (bool, option, list, prod, unit, sumbool); no Extract Constant; OCaml 4.13.1",
    "hand-written OCaml driver ocaml/*.ml (scenario parsing, number conversion, printing)",
    "Rust correspondence harness harness/src/*.rs and cfg(anysystem_verif) hooks in /repo",
    "extractor tools/extract.py (constants, regex literals, field lists, hash-iteration sites -> Gen/Extracted.v)",
    "scenario generators tools/gen_*.py (coverage measured in this file, not assumed)",
]


def f64_bits(x):
    return struct.unpack("<Q", struct.pack("<d", float(x)))[0]


def bits_f64(b):
    return struct.unpack("<d", struct.pack("<Q", int(b)))[0]


def sh(cmd, cwd=None, timeout=3600, env=None):
    e = dict(os.environ)
    e.pop("RUSTFLAGS", None)
    e.pop("CARGO_BUILD_TARGET_DIR", None)
    e.pop("CARGO_ENCODED_RUSTFLAGS", None)
    e["CARGO_TARGET_DIR"] = os.path.join(BUILD, "cargo-target")     # never a directory inherited from the caller
    e["CARGO_NET_OFFLINE"] = "true"
    if env:
        e.update(env)
    try:
        p = subprocess.run(cmd, cwd=cwd, shell=isinstance(cmd, str), stdout=subprocess.PIPE,
                           stderr=subprocess.STDOUT, timeout=timeout, env=e)
        return p.returncode, p.stdout.decode("utf-8", "replace")
    except subprocess.TimeoutExpired as ex:
        out = ex.stdout.decode("utf-8", "replace") if ex.stdout else ""
        return 124, out + "\nTIMEOUT"


class Lock:
    def __init__(self, name="build"):
        os.makedirs(BUILD, exist_ok=True)
        self.path = os.path.join(BUILD, "." + name + ".lock")

    def __enter__(self):
        self.f = open(self.path, "w")
        fcntl.flock(self.f, fcntl.LOCK_EX)
        return self

    def __exit__(self, *a):
        fcntl.flock(self.f, fcntl.LOCK_UN)
        self.f.close()


def newest_mtime(paths):
    m = 0.0
    for p in paths:
        if os.path.isdir(p):
            for d, _, fs in os.walk(p):
                for f in fs:
                    try:
                        m = max(m, os.path.getmtime(os.path.join(d, f)))
                    except OSError:
                        pass
        elif os.path.exists(p):
            m = max(m, os.path.getmtime(p))
    return m


class BuildResult:
    def __init__(self):
        self.extract_ok = True
        self.coq_ok = True
        self.coq_log = ""
        self.coq_failed_file = None
        self.ocaml_ok = True
        self.ocaml_log = ""
        self.harness_ok = True
        self.harness_log = ""
        self.seconds = {}


def coq_project_files():
    fs = []
    for l in open(os.path.join(COQ, "_CoqProject")):
        l = l.strip()
        if l.endswith(".v"):
            fs.append(l)
    return fs


def build_all(verbose=False):
    """Rebuild everything from the current /repo working tree and /verif sources (incremental)."""
    r = BuildResult()
    with Lock():
        os.makedirs(EXTRACTED, exist_ok=True)
        os.makedirs(WORK, exist_ok=True)
        # 1. extractor: /repo/src -> Gen/Extracted.v
        t0 = time.time()
        rc, out = sh([sys.executable, os.path.join(ROOT, "tools", "extract.py")], cwd=ROOT, timeout=120)
        r.extract_ok = rc == 0
        r.seconds["extractor"] = time.time() - t0
        if rc != 0:
            r.coq_log += "EXTRACTOR FAILED\n" + out
        # 2. Coq
        t0 = time.time()
        rc, out = sh("coq_makefile -f _CoqProject -o Makefile > /dev/null && timeout 3000 make -j16", cwd=COQ,
                     timeout=3100)
        r.coq_ok = r.coq_ok and rc == 0
        r.coq_log += out
        r.seconds["coq"] = time.time() - t0
        if rc != 0:
            m = re.search(r'File "\./(theories/[^"]+)"', out)
            if m:
                r.coq_failed_file = m.group(1)
        # 3. extraction + OCaml driver
        t0 = time.time()
        stamp = os.path.join(BUILD, ".model.stamp")
        src_m = newest_mtime([os.path.join(COQ, "theories", d) for d in ("Base", "Model", "Spec", "Extract", "Gen")]
                             + [os.path.join(ROOT, "ocaml")])
        if not os.path.exists(MODEL_BIN) or not os.path.exists(stamp) or os.path.getmtime(stamp) < src_m:
            model_vs = ["Base", "Model", "Spec", "Gen"]
            can_extract = rc == 0 or all(
                os.path.exists(os.path.join(COQ, f[:-2] + ".vo")) for f in coq_project_files()
                if f.split("/")[1] in model_vs)
            if can_extract:
                for f in os.listdir(EXTRACTED):
                    os.remove(os.path.join(EXTRACTED, f))
                rc2, out2 = sh("timeout 600 coqc -Q ../../coq/theories ASV ../../coq/theories/Extract/Extract.v",
                               cwd=EXTRACTED)
                if rc2 == 0:
                    sh("cp %s/ocaml/*.ml ." % ROOT, cwd=EXTRACTED)
                    rc2, out3 = sh("FILES=$(ocamlfind ocamldep -sort *.mli *.ml) && "
                                   "ocamlfind ocamlopt -O3 -w -a -o ../model $FILES", cwd=EXTRACTED, timeout=900)
                    out2 += out3
                r.ocaml_ok = rc2 == 0
                r.ocaml_log = out2
                if rc2 == 0:
                    open(stamp, "w").write("ok")
            else:
                r.ocaml_ok = False
                r.ocaml_log = "model files do not compile"
        r.seconds["ocaml"] = time.time() - t0
        # 4. Rust harness against /repo's working tree with the hooks on
        t0 = time.time()
        lock_src = os.path.join(REPO, "Cargo.lock")
        lock_dst = os.path.join(HARNESS_DIR, "Cargo.lock")
        if not os.path.exists(lock_dst):
            sh(["cp", lock_src, lock_dst])
        rc, out = sh("cargo build --offline 2>&1", cwd=HARNESS_DIR, timeout=3000)
        r.harness_ok = rc == 0
        r.harness_log = out
        r.seconds["harness"] = time.time() - t0
    return r


# ---------------------------------------------------------------------------------------------------
# proof obligations

def forbidden_tokens():
    """grep the whole development for forbidden constructs; returns list of (file, line, text)."""
    hits = []
    for d, _, fs in os.walk(os.path.join(COQ, "theories")):
        for f in fs:
            if not f.endswith(".v"):
                continue
            p = os.path.join(d, f)
            text = open(p).read()
            # strip comments (non-nested is enough for our files; nested handled by a small loop)
            text = strip_comments(text)
            for i, l in enumerate(text.split("\n")):
                if FORBIDDEN.search(l):
                    hits.append((os.path.relpath(p, ROOT), i + 1, l.strip()))
    return hits


def strip_comments(text):
    out = []
    depth = 0
    i = 0
    n = len(text)
    while i < n:
        if text.startswith("(*", i):
            depth += 1
            i += 2
        elif text.startswith("*)", i) and depth > 0:
            depth -= 1
            i += 2
        else:
            if depth == 0:
                out.append(text[i])
            elif text[i] == "\n":
                out.append("\n")
            i += 1
    return "".join(out)


ALLOWED_AXIOMS = {
    # standard-library axioms only, each named in DESIGN.md section 7
    "ClassicalDedekindReals.sig_forall_dec", "ClassicalDedekindReals.sig_not_dec",
    "FunctionalExtensionality.functional_extensionality_dep", "Classical_Prop.classic",
}


def check_props(prop_id):
    """Compile Props/<prop>.v (statement + exact + Print Assumptions) and check its assumptions.
    Returns dict(obligations, discharged, theorems, failures, assumptions)."""
    path = os.path.join(COQ, "theories", "Props", prop_id + ".v")
    res = {"obligations": 0, "discharged": 0, "theorems": [], "failures": [], "assumptions": {}}
    if not os.path.exists(path):
        res["failures"].append("missing " + path)
        return res
    text = strip_comments(open(path).read())
    thms = re.findall(r"^\s*(?:Theorem|Definition)\s+(%s_\w+)" % prop_id, text, re.M)
    res["theorems"] = thms
    res["obligations"] = len(thms)
    # pins: the statements may not change silently
    pins_path = os.path.join(ROOT, "tools", "pins.json")
    pins = json.load(open(pins_path)) if os.path.exists(pins_path) else {}
    norm = re.sub(r"\s+", " ", text).strip()
    h = hashlib.sha256(norm.encode()).hexdigest()
    if pins.get(prop_id) != h:
        res["failures"].append("Props/%s.v differs from its pinned statement text (tools/pins.json)" % prop_id)
    outdir = os.path.join(BUILD, "props")
    os.makedirs(outdir, exist_ok=True)
    with Lock("props"):
        rc, out = sh(["timeout", "900", "coqc", "-Q", "theories", "ASV", "-o", os.path.join(outdir, prop_id + ".vo"),
                      os.path.join("theories", "Props", prop_id + ".v")], cwd=COQ, timeout=1000)
    open(os.path.join(outdir, prop_id + ".out"), "w").write(out)
    if rc != 0:
        res["failures"].append("Props/%s.v does not compile: %s" % (prop_id, out.strip()[-400:]))
        return res
    # parse Print Assumptions blocks: either "Closed under the global context" or "Axioms:" + list
    blocks = re.split(r"(?=Closed under the global context|Axioms:)", out)
    n_closed = 0
    bad = []
    axioms = set()
    for b in blocks:
        if b.startswith("Closed under the global context"):
            n_closed += 1
        elif b.startswith("Axioms:"):
            for m in re.finditer(r"^([A-Za-z_][\w.]*)\s*:", b[len("Axioms:"):], re.M):
                axioms.add(m.group(1))
            n_closed += 1
    for a in axioms:
        if a not in ALLOWED_AXIOMS:
            bad.append(a)
    res["assumptions"] = {"print_assumptions_blocks": n_closed, "axioms": sorted(axioms)}
    if n_closed < len(thms):
        res["failures"].append("fewer Print Assumptions results (%d) than theorems (%d)" % (n_closed, len(thms)))
    if bad:
        res["failures"].append("theorems depend on non-allow-listed axioms: " + ", ".join(sorted(bad)))
    # the statements (types as Coq prints them) are pinned too: a theorem cannot be weakened silently
    types = props_types(prop_id, thms)
    if types is None:
        res["failures"].append("cannot print the types of the theorems of Props/%s.v" % prop_id)
    else:
        th = hashlib.sha256(re.sub(r"\s+", " ", types).strip().encode()).hexdigest()
        if pins.get(prop_id + ".types") != th:
            res["failures"].append("the statements of Props/%s.v differ from the pinned ones (tools/pins.json, "
                                   "coq/theories/Props/%s.statements.txt)" % (prop_id, prop_id))
    hits = forbidden_tokens()
    if hits:
        res["failures"].append("forbidden constructs: " + "; ".join("%s:%d %s" % h for h in hits[:5]))
    if not res["failures"]:
        res["discharged"] = len(thms)
    return res


def props_types(prop_id, thms):
    """the types of the property's theorems as Coq prints them (needs build/props/<id>.vo)"""
    outdir = os.path.join(BUILD, "props")
    src = os.path.join(outdir, prop_id + "_types.v")
    with open(src, "w") as f:
        f.write("Require Import %s.\n" % prop_id)
        for t in thms:
            f.write("Check @%s.\n" % t)
    with Lock("props"):
        rc, out = sh(["timeout", "600", "coqc", "-Q", "theories", "ASV", "-Q", outdir, "", src], cwd=COQ, timeout=700)
    for ext in (".vo", ".glob", ".vok", ".vos"):
        try:
            os.remove(os.path.join(outdir, prop_id + "_types" + ext))
        except OSError:
            pass
    return out if rc == 0 else None


def update_pins():
    pins = {}
    d = os.path.join(COQ, "theories", "Props")
    outdir = os.path.join(BUILD, "props")
    os.makedirs(outdir, exist_ok=True)
    for f in sorted(os.listdir(d)):
        if f.endswith(".v"):
            text = strip_comments(open(os.path.join(d, f)).read())
            norm = re.sub(r"\s+", " ", text).strip()
            pid = f[:-2]
            pins[pid] = hashlib.sha256(norm.encode()).hexdigest()
            thms = re.findall(r"^\s*(?:Theorem|Definition)\s+(%s_\w+)" % pid, text, re.M)
            rc, out = sh(["timeout", "900", "coqc", "-Q", "theories", "ASV", "-o", os.path.join(outdir, pid + ".vo"),
                          os.path.join("theories", "Props", f)], cwd=COQ, timeout=1000)
            if rc != 0:
                print("cannot compile", f, out[-500:])
                continue
            types = props_types(pid, thms)
            if types is not None:
                pins[pid + ".types"] = hashlib.sha256(re.sub(r"\s+", " ", types).strip().encode()).hexdigest()
                open(os.path.join(d, pid + ".statements.txt"), "w").write(types)
    json.dump(pins, open(os.path.join(ROOT, "tools", "pins.json"), "w"), indent=1, sort_keys=True)
    return pins


# ---------------------------------------------------------------------------------------------------
# running scenarios

def write_scenarios(path, scenarios):
    """scenarios: list of (cls, sid, [lines])"""
    with open(path, "w") as f:
        for cls, sid, lines in scenarios:
            f.write("SCENARIO %s %s\n" % (cls, sid))
            for l in lines:
                f.write(l + "\n")
            f.write("END\n")


def parse_blocks(text):
    blocks = {}
    cur = None
    for l in text.split("\n"):
        if l.startswith("BEGIN "):
            cur = l[6:].strip()
            blocks[cur] = []
        elif l.startswith("END "):
            cur = None
        elif cur is not None:
            blocks[cur].append(l)
    return blocks


def run_sharded(binary, args_prefix, scenarios, tag, shards=16, timeout=1800, env=None):
    """Run `binary args_prefix <file>` over the scenarios in parallel shards; returns dict sid -> lines."""
    os.makedirs(WORK, exist_ok=True)
    n = len(scenarios)
    if n == 0:
        return {}
    shards = max(1, min(shards, n))
    procs = []
    e = dict(os.environ)
    if env:
        e.update(env)
    for k in range(shards):
        part = scenarios[k::shards]
        path = os.path.join(WORK, "%s.%d.%d.scn" % (tag, os.getpid(), k))
        write_scenarios(path, part)
        outp = path + ".out"
        f = open(outp, "w")
        p = subprocess.Popen([binary] + args_prefix + [path], stdout=f, stderr=subprocess.DEVNULL, env=e)
        procs.append((p, f, path, outp, part))
    blocks = {}
    for p, f, path, outp, part in procs:
        try:
            p.wait(timeout=timeout)
        except subprocess.TimeoutExpired:
            p.kill()
        f.close()
        b = parse_blocks(open(outp).read())
        for cls, sid, _ in part:
            if sid not in b:
                b[sid] = ["NOOUTPUT rc=%s" % p.returncode]
        blocks.update(b)
        os.remove(path)
        os.remove(outp)
    return blocks


def run_impl(scenarios, tag="impl", **kw):
    return run_sharded(HARNESS_BIN, ["run"], scenarios, tag, **kw)


def run_model(scenarios, tag="model", **kw):
    return run_sharded(MODEL_BIN, [], scenarios, tag, **kw)


def comparable(lines):
    """drop info lines; canonicalise the one place where the code's order is a heap's internal iteration order:
    the block of MessageDropped entries logged by one crash_node call is sorted"""
    out = [l for l in lines if l and not l.startswith("#") and not l.startswith(("XINV ", "XCALL ", "XEV ", "XSIMT ", "XSNAPT ", "XTM ", "XLOG "))]
    res = []
    i = 0
    while i < len(out):
        res.append(out[i])
        if out[i].startswith("LOG NodeCrashed"):
            j = i + 1
            while j < len(out) and out[j].startswith("LOG MessageDropped"):
                j += 1
            res.extend(sorted(out[i + 1:j]))
            i = j
        else:
            i += 1
    return res


def first_diff(a, b):
    a = comparable(a)
    b = comparable(b)
    for i in range(max(len(a), len(b))):
        x = a[i] if i < len(a) else "<end>"
        y = b[i] if i < len(b) else "<end>"
        if x != y:
            return i, x, y
    return None


# ---------------------------------------------------------------------------------------------------
# verdicts, replays, evidence

def load_known():
    p = os.path.join(ROOT, "known_findings.json")
    return json.load(open(p)) if os.path.exists(p) else {"findings": []}


def write_replay(prop_id, name, payload):
    os.makedirs(REPLAYS, exist_ok=True)
    h = hashlib.sha256(json.dumps(payload, sort_keys=True).encode()).hexdigest()[:12]
    path = os.path.join(REPLAYS, "%s-%s-%s.json" % (prop_id, name, h))
    json.dump(payload, open(path, "w"), indent=1)
    return path


def write_evidence(prop_id, tier, seed, coverage, assumptions, wall_s, violations, level="proof"):
    os.makedirs(EVIDENCE, exist_ok=True)
    ev = {"property_id": prop_id, "tier": tier, "seed": seed, "level": level, "coverage": coverage,
          "assumptions": assumptions, "wall_s": round(wall_s, 2), "violations": violations}
    json.dump(ev, open(os.path.join(EVIDENCE, prop_id + ".json"), "w"), indent=1)
    return ev


def scenario_text(sc):
    cls, sid, lines = sc
    return "SCENARIO %s %s\n%s\nEND" % (cls, sid, "\n".join(lines))


def shrink(sc, still_fails, max_rounds=200):
    """delta-debug the line list of one scenario: remove lines while `still_fails(sc)` holds."""
    cls, sid, lines = sc
    lines = list(lines)
    n = 2
    rounds = 0
    while len(lines) >= 2 and rounds < max_rounds:
        rounds += 1
        chunk = max(1, len(lines) // n)
        reduced = False
        for i in range(0, len(lines), chunk):
            cand = lines[:i] + lines[i + chunk:]
            if cand and still_fails((cls, sid, cand)):
                lines = cand
                n = max(n - 1, 2)
                reduced = True
                break
        if not reduced:
            if chunk == 1:
                break
            n = min(n * 2, len(lines))
    return (cls, sid, lines)
