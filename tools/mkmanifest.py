#!/usr/bin/env python3
"""Regenerates MANIFEST.json from tools/suites.py (claimed properties) and tools/manifest_meta.json."""
import json
import os
import sys

sys.path.insert(0, os.path.dirname(os.path.abspath(__file__)))
import suites

ROOT = os.path.dirname(os.path.dirname(os.path.abspath(__file__)))
meta = json.load(open(os.path.join(ROOT, "tools", "manifest_meta.json")))
props = [json.loads(l) for l in open(os.path.join(ROOT, "properties.jsonl"))]
checks = []
na = []
for p in props:
    pid = p["id"]
    if pid in suites.PROPERTIES and pid in meta["claimed"]:
        m = meta["claimed"][pid]
        checks.append({
            "property_id": pid,
            "quick_cmd": "./check %s --tier quick" % pid,
            "thorough_cmd": "./check %s --tier thorough" % pid,
            "evidence_file": "/verif/evidence/%s.json" % pid,
            "replay_cmd_template": "./check %s --replay {path}" % pid,
            "engine": "coq-model+correspondence",
            "level_claimed": {"category": "proof", "text": m["text"], "design_ref": m["design_ref"]},
            "level_note": m["note"],
            "technique": m["technique"],
        })
    else:
        na.append({"property_id": pid, "reason": meta["unclaimed"].get(pid, meta["unclaimed_default"])})
man = {
    "version": 1,
    "setup_cmd": "./setup.sh",
    "hooks": {
        "guard": "cfg(anysystem_verif)",
        "enable": "RUSTFLAGS='--cfg anysystem_verif' (set in harness/.cargo/config.toml; the harness crate depends on /repo by path)",
        "baseline_off_cmd": "cd /repo && cargo nextest run --workspace --no-fail-fast --offline --test-threads 8 || cargo test --workspace --no-fail-fast --offline",
        "source_commits": meta["hook_commits"],
        "add_only": True,
    },
    "engines": [{
        "name": "coq-model+correspondence",
        "path": "/verif/coq, /verif/ocaml, /verif/harness, /verif/tools",
        "serves_properties": [c["property_id"] for c in checks],
        "kind_free_text": "Gallina model + Coq theorems (coqc 8.16.1), OCaml extraction of the model, Rust harness "
                          "running the real crate on the same scenarios, monitors = extracted specifications run on "
                          "the implementation's histories",
    }],
    "checks": checks,
    "notes": meta["notes"],
    "not_applicable": na,
}
json.dump(man, open(os.path.join(ROOT, "MANIFEST.json"), "w"), indent=1)
print("claimed:", [c["property_id"] for c in checks])
