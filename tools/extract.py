#!/usr/bin/env python3
"""Extractor: reads /repo/src and regenerates coq/theories/Gen/Extracted.v (constants, regex literals,
struct field lists, Eq/Hash field lists, get_state/set_state field lists, hash-collection iteration sites,
order of the alternatives in process_event and of the tests in check_state).
Pure text matching; in the trusted base. Gen/ExtractedOK.v proves the values equal what the model assumes."""
import os
import re
import sys

ROOT = os.path.dirname(os.path.dirname(os.path.abspath(__file__)))
SRC = "/repo/src"
OUT = os.path.join(ROOT, "coq", "theories", "Gen", "Extracted.v")


def read(rel):
    return open(os.path.join(SRC, rel)).read()


def strip_rust_comments(s):
    s = re.sub(r"//[^\n]*", "", s)
    return s


def cfg_verif_free(s):
    """drop items guarded by #[cfg(anysystem_verif)] (the hooks) and #[cfg(test)] modules."""
    out = []
    lines = s.split("\n")
    i = 0
    while i < len(lines):
        l = lines[i]
        if l.strip() in ("#[cfg(anysystem_verif)]", "#[cfg(test)]"):
            # skip attribute lines, then the item up to its matching brace
            i += 1
            while i < len(lines) and lines[i].strip().startswith("#["):
                i += 1
            depth = 0
            started = False
            while i < len(lines):
                depth += lines[i].count("{") - lines[i].count("}")
                if "{" in lines[i]:
                    started = True
                semi = lines[i].rstrip().endswith(";") and not started
                i += 1
                if (started and depth <= 0) or semi:
                    break
            continue
        out.append(l)
        i += 1
    return "\n".join(out)


def coq_str(s):
    return '"' + s.replace('"', '""') + '"'


def coq_list(xs):
    return "[" + "; ".join(xs) + "]"


def struct_fields(text, name):
    m = re.search(r"struct\s+%s\s*\{(.*?)\n\}" % re.escape(name), text, re.S)
    if not m:
        return None
    fields = []
    for l in m.group(1).split("\n"):
        l = l.strip()
        if not l or l.startswith("//") or l.startswith("#"):
            continue
        fm = re.match(r"(?:pub(?:\([a-z]+\))?\s+)?(\w+)\s*:", l)
        if fm:
            fields.append(fm.group(1))
    return fields


def fn_body(text, header_regex):
    m = re.search(header_regex, text)
    if not m:
        return None
    i = m.end() - 1
    pd = 0
    while i < len(text):
        c = text[i]
        if c in "([":
            pd += 1
        elif c in ")]":
            pd -= 1
        elif c == ";" and pd <= 0:
            return None
        elif c == "{" and pd <= 0:
            break
        i += 1
    if i >= len(text):
        return None
    depth = 0
    j = i
    while j < len(text):
        if text[j] == "{":
            depth += 1
        elif text[j] == "}":
            depth -= 1
            if depth == 0:
                return text[i:j + 1]
        j += 1
    return None


def main():
    items = []   # (name, coq type, coq value)

    def add(name, ty, val):
        items.append((name, ty, val))

    files = {}
    for d, _, fs in os.walk(SRC):
        for f in fs:
            if f.endswith(".rs"):
                rel = os.path.relpath(os.path.join(d, f), SRC)
                files[rel] = cfg_verif_free(strip_rust_comments(read(rel)))

    # ---- constants ----
    m = re.search(r"const\s+DUPL_COUNT\s*:\s*u32\s*=\s*(\d+)\s*;", files["mc/network.rs"])
    add("dupl_count", "N", (m.group(1) if m else "0") + "%N")
    res = []
    for rel in ("network.rs", "mc/strategy.rs"):
        lits = re.findall(r'Regex::new\(r#"(.*?)"#\)', files[rel])
        repl = re.findall(r'RE\.replace_all\(&msg\.data,\s*"((?:\\.|[^"\\])*)"\)', files[rel])
        res.append((rel, lits, repl))
    add("sim_corrupt_re", "list string", coq_list([coq_str(x) for x in res[0][1]]))
    add("mc_corrupt_re", "list string", coq_list([coq_str(x) for x in res[1][1]]))
    add("sim_corrupt_repl", "list string", coq_list([coq_str(x) for x in res[0][2]]))
    add("mc_corrupt_repl", "list string", coq_list([coq_str(x) for x in res[1][2]]))
    # Network::new defaults
    body = fn_body(files["network.rs"], r"fn\s+new\s*\(ctx:\s*SimulationContext[^)]*\)\s*->\s*Self\s*\{")
    defaults = re.findall(r"(min_delay|max_delay|drop_rate|dupl_rate|corrupt_rate)\s*:\s*([0-9.]+)\s*,", body or "")
    add("net_defaults", "list (string * string)",
        coq_list(["(%s, %s)" % (coq_str(a), coq_str(b)) for a, b in defaults]))
    body = fn_body(files["network.rs"], r"fn\s+get_message_count\s*\(&self\)\s*->\s*u32\s*\{")
    add("get_message_count_body", "string", coq_str(re.sub(r"\s+", " ", body or "").strip()))
    body = fn_body(files["mc/system.rs"], r"fn\s+get_approximate_event_time\s*\(depth:\s*u64\)\s*->\s*f64\s*\{")
    add("approx_event_time_body", "string", coq_str(re.sub(r"\s+", " ", body or "").strip()))

    # ---- struct field lists ----
    for rel, name in (("mc/system.rs", "McSystem"), ("mc/node.rs", "McNode"), ("node.rs", "ProcessEntry"),
                      ("mc/state.rs", "McState"), ("mc/node.rs", "McNodeState"),
                      ("mc/node.rs", "ProcessEntryState"), ("mc/pending_events.rs", "PendingEvents"),
                      ("mc/dependency.rs", "DependencyResolver"), ("mc/dependency.rs", "TimerInfo"),
                      ("mc/network.rs", "McNetwork"), ("network.rs", "Network"), ("node.rs", "Node"),
                      ("system.rs", "System")):
        fs = struct_fields(files[rel], name)
        add("fields_" + name, "list string", coq_list([coq_str(x) for x in (fs or ["<missing>"])]))

    # ---- hand-written Eq / Hash impls: which fields they read ----
    def fields_read(body):
        return sorted(set(re.findall(r"\bself\.(\w+)", body or "")))
    st = files["mc/state.rs"]
    add("mcstate_eq_fields", "list string", coq_list([coq_str(x) for x in fields_read(
        fn_body(st, r"impl\s+PartialEq\s+for\s+McState\s*\{"))]))
    add("mcstate_hash_fields", "list string", coq_list([coq_str(x) for x in fields_read(
        fn_body(st, r"impl\s+Hash\s+for\s+McState\s*\{"))]))
    nd = files["mc/node.rs"]
    add("pes_eq_fields", "list string", coq_list([coq_str(x) for x in fields_read(
        fn_body(nd, r"impl\s+PartialEq\s+for\s+ProcessEntryState\s*\{"))]))
    add("pes_hash_fields", "list string", coq_list([coq_str(x) for x in fields_read(
        fn_body(nd, r"impl\s+Hash\s+for\s+ProcessEntryState\s*\{"))]))
    # derives of the state-bearing types
    def derives(text, name):
        m = re.search(r"#\[derive\(([^)]*)\)\]\s*(?:pub(?:\([a-z]+\))?\s+)?(?:struct|enum)\s+%s\b" % name, text)
        return sorted(x.strip() for x in m.group(1).split(",")) if m else []
    for rel, name in (("mc/pending_events.rs", "PendingEvents"), ("mc/dependency.rs", "DependencyResolver"),
                      ("mc/dependency.rs", "TimerInfo"), ("mc/node.rs", "McNodeState"),
                      ("mc/events.rs", "McEvent"), ("mc/network.rs", "DeliveryOptions"), ("message.rs", "Message")):
        add("derives_" + name, "list string", coq_list([coq_str(x) for x in derives(files[rel], name)]))

    # ---- get_state / set_state field lists ----
    def assigned(body, pat):
        return re.findall(pat, body or "")
    b = fn_body(nd, r"fn\s+get_state\s*\(&self\)\s*->\s*Result<ProcessEntryState,\s*String>\s*\{")
    add("pe_get_state_fields", "list string", coq_list([coq_str(x) for x in assigned(b, r"\n\s*(\w+)\s*:")]))
    b = fn_body(nd, r"fn\s+set_state\s*\(&mut self,\s*state:\s*ProcessEntryState\)[^{]*\{")
    add("pe_set_state_fields", "list string",
        coq_list([coq_str(x) for x in assigned(b, r"self\.(\w+)(?:\.set_state\(|\s*=)")]))
    b = fn_body(files["mc/system.rs"], r"fn\s+set_state\s*\(&mut self,\s*state:\s*McState\)\s*\{")
    add("mcsys_set_state_fields", "list string",
        coq_list([coq_str(x) for x in sorted(set(assigned(b, r"self\.(\w+)")))]))
    b = fn_body(files["mc/system.rs"], r"fn\s+get_state\s*\(&self\)\s*->\s*McState\s*\{")
    add("mcsys_get_state_fields", "list string",
        coq_list([coq_str(x) for x in sorted(set(assigned(b, r"self\.(\w+)")))]))
    b = fn_body(nd, r"fn\s+set_state\s*\(&mut self,\s*state:\s*McNodeState\)\s*\{")
    add("mcnode_set_state_fields", "list string",
        coq_list([coq_str(x) for x in sorted(set(assigned(b, r"self\.(\w+)")))]))

    # ---- order of alternatives in process_event, of tests in check_state ----
    b = fn_body(files["mc/strategy.rs"], r"fn\s+process_event\s*\(&mut self[^)]*\)\s*->\s*Result<\(\),\s*McError>\s*\{")
    alts = re.findall(r"self\.search_step\(system,\s*EventOrId::(Id\(event_id\)|Event\((\w+)\))\)", b or "")
    add("process_event_alternatives", "list string", coq_list([coq_str(a[1] or "Id") for a in alts]))
    guards = re.findall(r"\n\s*if\s+([^\{\n]+?)\s*\{", b or "")
    add("process_event_guards", "list string", coq_list([coq_str(g.strip()) for g in guards]))
    b = fn_body(files["mc/strategy.rs"], r"fn\s+check_state\s*\(&mut self,\s*state:\s*&McState\)[^{]*\{")
    tests = re.findall(r"self\.(collect|invariant|goal|prune)\(\)\)\(state\)|state\.events\.(is_empty)\(\)", b or "")
    add("check_state_order", "list string", coq_list([coq_str(a or c) for a, c in tests]))

    # ---- hash-collection iteration sites ----
    sites = []
    iter_pat = re.compile(
        r"\.(iter|iter_mut|keys|values|values_mut|into_iter|drain|retain)\s*\(|\bfor\s+[^{;]*?\s+in\s+|"
        r"(Vec::from_iter|HashSet::from_iter|\.extend)\s*\(")
    for rel in sorted(files):
        text = files[rel]
        hash_fields = set(re.findall(r"(\w+)\s*:\s*(?:&\s*)?(?:mut\s+)?Hash(?:Map|Set)\s*<", text))
        hash_locals = set(re.findall(r"let\s+(?:mut\s+)?(\w+)\s*(?::\s*Hash(?:Map|Set)[^=]*)?=\s*Hash(?:Map|Set)::", text))
        hash_locals |= set(re.findall(r"let\s+(?:mut\s+)?(\w+)\s*:\s*Hash(?:Map|Set)\s*<", text))
        names = hash_fields | hash_locals
        if not names:
            continue
        # walk functions
        for fm in re.finditer(r"fn\s+(\w+)\s*(?:<[^>]*>)?\s*\(", text):
            fname = fm.group(1)
            body = fn_body(text[fm.start():], r"fn\s+\w+")
            if body is None:
                continue
            for line in body.split("\n"):
                ls = line.strip()
                for nme in names:
                    # an iteration construct applied to the collection `nme`
                    pats = [
                        r"\b(?:self\.)?%s(?:\[[^\]]*\])?(?:\.borrow(?:_mut)?\(\))?\.(iter|iter_mut|keys|values|values_mut|into_iter|drain|retain)\s*\(" % nme,
                        r"\bfor\s+[^{;]*?\s+in\s+&?(?:mut\s+)?(?:self\.|state\.|other\.)?%s\b(?!\s*\()" % nme,
                        r"(?:Vec|HashSet)::from_iter\(\s*%s\b" % nme,
                        r"\.extend\(\s*(?:other\.|self\.)?%s\b" % nme,
                    ]
                    for p in pats:
                        if re.search(p, ls):
                            sites.append((rel, fname, nme))
                            break
    # McNode.processes / Node.processes are reached through other paths too
    extra_pats = [
        ("mc/system.rs", r"\.processes\.keys\(\)", "processes"),
        ("mc/node.rs", r"\.processes\s*\.iter\(\)|self\s*\.processes\s*\n?\s*\.iter\(\)", "processes"),
    ]
    for rel, pat, nme in extra_pats:
        text = files[rel]
        for fm in re.finditer(r"fn\s+(\w+)\s*(?:<[^>]*>)?\s*\(", text):
            body = fn_body(text[fm.start():], r"fn\s+\w+")
            if body and re.search(pat, re.sub(r"\s+", "", body) if "\\n" in pat else body):
                sites.append((rel, fm.group(1), nme))
    sites = sorted(set(sites))
    add("hash_iter_sites", "list (string * string * string)",
        coq_list(["(%s, %s, %s)" % (coq_str(a), coq_str(b), coq_str(c)) for a, b, c in sites]))

    out = ["(* GENERATED by tools/extract.py from /repo/src on every check. Do not edit. *)",
           "From Coq Require Import String List NArith.", "Import ListNotations.", "Open Scope string_scope.", ""]
    for name, ty, val in items:
        out.append("Definition %s : %s := %s." % (name, ty, val))
    text = "\n".join(out) + "\n"
    os.makedirs(os.path.dirname(OUT), exist_ok=True)
    old = open(OUT).read() if os.path.exists(OUT) else None
    if old != text:
        open(OUT, "w").write(text)
    return 0


if __name__ == "__main__":
    sys.exit(main())
