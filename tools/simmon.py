"""Monitors for the simulator properties (C05, C06, C07 sim half, C08, C17) evaluated on the IMPLEMENTATION's own
observation: the trace entries it logged, the return values of the API calls, and the per-call facts lines."""
import re
from vlib import bits_f64

ARITY_MSG = {"LocalMessageSent": 4, "LocalMessageReceived": 4, "MessageSent": 6, "MessageReceived": 6, "MessageDropped": 6}


def parse_msg(toks, i):
    n = int(toks[i]); tip = bytes(int(x) for x in toks[i + 1:i + 1 + n]); i += 1 + n
    n = int(toks[i]); data = bytes(int(x) for x in toks[i + 1:i + 1 + n]); i += 1 + n
    return (tip, data), i


def parse_log(line):
    toks = line.split()
    kind = toks[1]
    if kind in ARITY_MSG:
        k = ARITY_MSG[kind]
        f = [int(x) for x in toks[2:2 + k]]
        m, _ = parse_msg(toks, 2 + k)
        return (kind, f, m)
    if kind == "NetworkPartition":
        return (kind, [int(toks[2])], line)
    return (kind, [int(x) for x in toks[2:]], None)


def parse_msgs(text):
    """'RET MSGS m;m' payload list"""
    out = []
    for part in text.split(";"):
        toks = part.split()
        if toks:
            m, _ = parse_msg(toks, 0)
            out.append(m)
    return out


def corrupt(data):
    return re.sub(rb'"[^"]+"', b'""', data)


def split_ops(lines):
    """[(op index, op name, [log entries], ret, facts{})]"""
    ops = []
    cur = None
    for l in lines:
        if l.startswith("OP "):
            t = l.split()
            cur = {"idx": int(t[1]), "op": t[2], "logs": [], "ret": None, "q": None, "cnt": {}, "nc": None, "panic": False}
            ops.append(cur)
        elif cur is None:
            continue
        elif l.startswith("LOG "):
            cur["logs"].append(parse_log(l))
        elif l.startswith("RET "):
            cur["ret"] = l[4:]
        elif l.startswith("Q "):
            t = l.split()
            cur["q"] = (int(t[1]), int(t[2]), None if t[3] == "-" else int(t[3]))
        elif l.startswith("CNT"):
            for x in l.split()[1:]:
                p, s, r, o, e = x.split(":")
                cur["cnt"][int(p)] = (int(s), int(r), int(o), int(e))
        elif l.startswith("NC "):
            t = l.split()
            cur["nc"] = (int(t[1]), int(t[2]))
        elif l == "PANIC":
            cur["panic"] = True
        elif l.startswith(("XINV ", "XCALL ")):
            cur.setdefault("calls", []).append(l.split())
        elif l.startswith("XEV "):
            t = l.split()
            cur.setdefault("evlog", []).append((int(t[1]), int(t[2]), t[3]))
    return ops


def evlog_times(ops):
    """C17 'every received message, local message and issued action appears in the event log with the right time':
    the entries a process's event log gained during an API call (XEV lines) must carry the time of one of the
    handler invocations of that process during the call (= the time of the MessageReceived / LocalMessageReceived /
    TimerFired trace entry that triggered it), be non-decreasing, and contain one MS / LS entry per MessageSent /
    LocalMessageSent trace entry of the process."""
    fails = []
    last = {}
    for o in ops:
        ev = o.get("evlog")
        if not ev:
            continue
        times = {}
        sent = {}
        for (kind, f, m) in o["logs"]:
            if kind == "MessageReceived":
                times.setdefault(f[5], set()).add(f[0])
            elif kind == "LocalMessageReceived":
                times.setdefault(f[2], set()).add(f[0])
            elif kind == "TimerFired":
                times.setdefault(f[4], set()).add(f[0])
            elif kind == "MessageSent":
                sent[(f[3], "MS")] = sent.get((f[3], "MS"), 0) + 1
            elif kind == "LocalMessageSent":
                sent[(f[2], "LS")] = sent.get((f[2], "LS"), 0) + 1
            elif kind == "ProcessStarted":
                last.pop(f[2], None)
        got = {}
        for (p, t, k) in ev:
            if t not in times.get(p, ()):
                fails.append(("C17:evlog_times", "event-log entry %s of process %d carries time %r, but its handlers ran at %s" % (
                    k, p, bits_f64(t), sorted(bits_f64(x) for x in times.get(p, ())))))
                break
            if p in last and bits_f64(t) < bits_f64(last[p]):
                fails.append(("C17:evlog_times", "event log of process %d goes back in time" % p))
                break
            last[p] = t
            if k in ("MS", "LS"):
                got[(p, k)] = got.get((p, k), 0) + 1
        else:
            if got != sent:
                fails.append(("C17:evlog_actions", "sends in the event logs %s vs sends in the trace %s during one call" % (got, sent)))
        # every timer operation a handler ISSUED (XCALL lines, written by the process itself) appears once in its event log
        calls = {}
        for c in o.get("calls", []):
            if c[0] == "XCALL" and c[2] in ("SET", "SETONCE", "CANCEL"):
                k = "TC" if c[2] == "CANCEL" else "TS"
                calls[(int(c[1]), k)] = calls.get((int(c[1]), k), 0) + 1
        if o.get("calls"):
            logged = {}
            for (p, t, k) in ev:
                if k in ("TS", "TC"):
                    logged[(p, k)] = logged.get((p, k), 0) + 1
            if logged != calls:
                fails.append(("C17:evlog_actions", "timer operations issued by the handlers %s vs entries in the event logs %s" % (calls, logged)))
    return fails


def action_order(ops):
    """C17 / C06: the actions of one handler invocation appear in the trace - and so are created as events - in the
    order the handler ISSUED them (XCALL lines written by the process itself).  Ignored calls (set_timer_once on a
    pending name, cancel of a name that is not pending, sends dropped... are still logged) leave no entry, so the
    logged kinds must be a subsequence of the issued kinds, in order."""
    from collections import deque
    fails = []
    invs = {}
    kind_of = {"SEND": "MessageSent", "LOCAL": "LocalMessageSent", "SET": "TimerSet", "SETONCE": "TimerSet",
               "CANCEL": "TimerCancelled"}
    for o in ops:
        cur = None
        for c in o.get("calls", []):
            if c[0] == "XINV":
                cur = []
                invs.setdefault(int(c[1]), deque()).append(cur)
            elif cur is not None:
                cur.append(kind_of.get(c[2]))
        open_inv = {}       # proc -> (issued kinds, position reached)
        for (kind, f, m) in o["logs"]:
            trig = None
            if kind == "MessageReceived":
                trig = f[5]
            elif kind == "LocalMessageReceived":
                trig = f[2]
            elif kind == "TimerFired":
                trig = f[4]
            if trig is not None:
                q = invs.get(trig)
                if q:
                    open_inv[trig] = [q.popleft(), 0]
                else:
                    open_inv.pop(trig, None)
                continue
            actor = None
            if kind == "MessageSent":
                actor = f[3]
            elif kind == "LocalMessageSent":
                actor = f[2]
            elif kind in ("TimerSet", "TimerCancelled"):
                actor = f[4]
            if actor is None or actor not in open_inv:
                continue
            issued, pos = open_inv[actor]
            while pos < len(issued) and issued[pos] != kind:
                pos += 1
            if pos >= len(issued):
                fails.append(("C17:action_order", "process %d: the trace shows %s at a position where the handler had not issued it "
                              "(issued, in order: %s)" % (actor, kind, issued)))
                fails.append(("C06:creation_order", "process %d: the events of one handler call were created in another order "
                              "than the handler issued them (issued: %s; %s out of place): ties at equal times are then not "
                              "handled in creation order" % (actor, issued, kind)))
                return fails
            open_inv[actor][1] = pos + 1
    return fails


def api_timer_contract(ops):
    """C07 at the API level: what the handlers ASKED for (XINV / XCALL lines written by the harness's processes
    themselves, independently of Context) against what the trace shows happened.  Per (process, name): set_timer makes
    the name pending, set_timer_once only if it is not, cancel_timer frees it, a firing needs a pending name and frees
    it before the handler runs; a crash of the node frees every name of its processes."""
    from collections import deque
    fails = []
    pending = {}         # (proc, name) -> True
    node_of = {}
    invs = {}            # proc -> deque of call lists (one per handler invocation, in order)
    any_calls = False
    for o in ops:
        cur = None
        for c in o.get("calls", []):
            any_calls = True
            if c[0] == "XINV":
                cur = []
                invs.setdefault(int(c[1]), deque()).append(cur)
            elif cur is not None:
                cur.append(c)
        for (kind, f, m) in o["logs"]:
            proc = None
            if kind == "ProcessStarted":
                node_of[f[2]] = f[1]
                for k in [k for k in pending if k[0] == f[2]]:
                    del pending[k]
            elif kind == "NodeCrashed":
                for k in [k for k in pending if node_of.get(k[0]) == f[1]]:
                    del pending[k]
            elif kind == "MessageReceived":
                proc = f[5]
            elif kind == "LocalMessageReceived":
                proc = f[2]
            elif kind == "TimerFired":
                proc, nm = f[4], f[2]
                if not pending.pop((proc, nm), False):
                    fails.append(("C07:api_contract", "timer %d of process %d fired although, by the calls its handlers made, "
                                  "no timer of that name was pending (cancelled, or never set)" % (nm, proc)))
            if proc is not None and any_calls:
                q = invs.get(proc)
                if not q:
                    continue          # a process that does not log its calls (Python twin)
                for c in q.popleft():
                    if c[2] not in ("SET", "SETONCE", "CANCEL"):
                        continue
                    nm = int(c[3])
                    if c[2] == "SET":
                        pending[(proc, nm)] = True
                    elif c[2] == "SETONCE":
                        pending.setdefault((proc, nm), True)
                    elif c[2] == "CANCEL":
                        pending.pop((proc, nm), None)
    return fails


def monitor(sc, impl_lines):
    """returns list of (clause, detail)"""
    fails = []
    def fail(c, d):
        fails.append((c, d))
    script = [l.split() for l in sc[2]]
    ops = split_ops(impl_lines)
    by_idx = {o["idx"]: o for o in ops}
    # network settings as the script sets them (rates / delays are not logged), link state from the trace
    rates = {"drop": 0.0, "dupl": 0.0, "corrupt": 0.0, "min": 1.0, "max": 1.0}
    drop_in, drop_out, links = set(), set(), set()
    sends = {}            # msg id -> record
    timers = {}           # timer id -> record
    pending = {}          # (proc, name) -> timer id     (C07 contract state)
    crashed = {}          # node -> op position of the crash (while crashed)
    crash_events = []     # (position, node)
    unread = {}           # proc -> [msgs]  (C17 outbox)
    proc_start = {}       # proc -> counters since ProcessStarted
    proc_node = {}        # proc -> node (from ProcessStarted)
    gone = set()          # processes whose node crashed and that were not started again
    last_time = None
    pos = 0               # global position in the trace
    nc = 0
    traffic = 0
    nsent = 0
    for li, sl in enumerate(script):
        if sl[0] != "OP":
            continue
        o = by_idx.get(li)
        if o is None:
            break
        if o["panic"]:
            break
        before_q = ops[ops.index(o) - 1]["q"] if ops.index(o) > 0 else (0, 0, None)
        name = sl[1]
        if name == "NET":
            k = sl[2]
            if k == "DELAY":
                rates["min"] = rates["max"] = bits_f64(sl[3])
            elif k == "DELAYS":
                rates["min"], rates["max"] = bits_f64(sl[3]), bits_f64(sl[4])
            elif k == "DROPRATE":
                rates["drop"] = bits_f64(sl[3])
            elif k == "DUPLRATE":
                rates["dupl"] = bits_f64(sl[3])
            elif k == "CORRUPTRATE":
                rates["corrupt"] = bits_f64(sl[3])
            # link state is taken from the API calls of the SCRIPT (not from what the implementation logs about
            # them): only these calls may change it - in particular a crash or a recovery must not
            elif k == "DROPIN": drop_in.add(int(sl[3]))
            elif k == "PASSIN": drop_in.discard(int(sl[3]))
            elif k == "DROPOUT": drop_out.add(int(sl[3]))
            elif k == "PASSOUT": drop_out.discard(int(sl[3]))
            elif k == "DISCONNECT": drop_in.add(int(sl[3])); drop_out.add(int(sl[3]))
            elif k == "CONNECT": drop_in.discard(int(sl[3])); drop_out.discard(int(sl[3]))
            elif k == "DISABLELINK": links.add((int(sl[3]), int(sl[4])))
            elif k == "ENABLELINK": links.discard((int(sl[3]), int(sl[4])))
            elif k == "RESET": drop_in.clear(); drop_out.clear(); links.clear()
            elif k == "PARTITION":
                n1 = int(sl[3]); g1 = [int(x) for x in sl[4:4 + n1]]
                n2 = int(sl[4 + n1]); g2 = [int(x) for x in sl[5 + n1:5 + n1 + n2]]
                for a in g1:
                    for b in g2:
                        links.add((a, b)); links.add((b, a))
        in_crash_block = False
        for (kind, f, m) in o["logs"]:
            pos += 1
            t = f[0]
            # ---- C06: global time never goes back
            if last_time is not None and bits_f64(t) < bits_f64(last_time):
                fail("C06:time_monotone", "trace time goes back at %s (op %d)" % (kind, li))
            last_time = t
            # ---- C08: recovery starts clean - a process of a crashed node exists again only once it is started again
            hp = {"MessageReceived": 5, "LocalMessageReceived": 2, "TimerFired": 4}.get(kind)
            if hp is not None and f[hp] in gone and proc_node.get(f[hp]) not in crashed:
                fail("C08:recovery_clean", "process %d handled %s after its node crashed and recovered although it was never "
                     "started again: it lives on with its state from before the crash" % (f[hp], kind))
            if kind == "NodeCrashed":
                crashed[f[1]] = pos
                crash_events.append((pos, f[1]))
                in_crash_block = True
                gone.update(p_ for p_, n_ in proc_node.items() if n_ == f[1])
                continue
            elif kind == "NodeRecovered":
                crashed.pop(f[1], None)
            elif kind == "ProcessStarted":
                proc_start[f[2]] = {"sent": 0, "recv": 0}
                unread[f[2]] = []
                proc_node[f[2]] = f[1]
                gone.discard(f[2])
            elif kind == "MessageSent":
                mid, sn, sp, dn, dp = f[1], f[2], f[3], f[4], f[5]
                if mid != nsent:
                    fail("C17:ids", "message ids are not consecutive: %d after %d sends" % (mid, nsent))
                nsent += 1
                cut = sn != dn and (sn in drop_out or dn in drop_in or (sn, dn) in links)
                sends[mid] = {"t": t, "sn": sn, "dn": dn, "sp": sp, "dp": dp, "m": m, "cut": cut, "rates": dict(rates),
                              "pos": pos, "drop_at_send": False, "recv": 0, "dropped": 0, "recv_pos": []}
                if sp in proc_start:
                    proc_start[sp]["sent"] += 1
                if sn != dn:
                    nc += 1
                    traffic += len(m[0]) + len(m[1])
            elif kind == "MessageDropped":
                mid = f[1]
                s = sends.get(mid)
                if s is None:
                    fail("C17:ids", "MessageDropped for an unknown message id %d" % mid)
                else:
                    s["dropped"] += 1
                    if not in_crash_block:
                        if s["pos"] != pos - 1:
                            fail("C17:one_fate", "a drop outside a crash that does not directly follow its send (id %d)" % mid)
                        s["drop_at_send"] = True
                    else:
                        if s["drop_at_send"]:
                            fail("C17:one_fate", "message %d dropped at send and again at a crash" % mid)
            elif kind == "MessageReceived":
                mid, sn, sp, dn, dp = f[1], f[2], f[3], f[4], f[5]
                s = sends.get(mid)
                if s is None:
                    fail("C05:sent_before", "message id %d received but never sent" % mid)
                else:
                    s["recv"] += 1
                    s["recv_pos"].append(pos)
                    if (s["sn"], s["sp"], s["dn"], s["dp"]) != (sn, sp, dn, dp):
                        fail("C05:sent_before", "message %d received with other endpoints than sent" % mid)
                    if s["cut"]:
                        fail("C05:link_enabled", "message %d was sent over a cut path and still delivered" % mid)
                    if s["drop_at_send"]:
                        fail("C17:one_fate", "message %d was dropped at send and received" % mid)
                    if m != s["m"]:
                        if not (m[0] == s["m"][0] and m[1] == corrupt(s["m"][1])):
                            fail("C05:payload", "message %d delivered with a payload that is neither sent nor its corruption" % mid)
                        elif not s["rates"]["corrupt"] > 0:
                            fail("C05:payload", "message %d corrupted with corruption rate 0" % mid)
                        elif s["sn"] == s["dn"]:
                            fail("C05:same_node", "message %d between processes of one node was delivered corrupted" % mid)
                    elif s["rates"]["corrupt"] >= 1.0 and s["sn"] != s["dn"] and corrupt(s["m"][1]) != s["m"][1]:
                        fail("C05:payload", "message %d delivered intact with corruption rate 1" % mid)
                    # ---- C06 arrival time
                    st, rt = bits_f64(s["t"]), bits_f64(t)
                    if s["sn"] == s["dn"]:
                        if rt != st:
                            fail("C06:arrival", "message %d inside a node arrived at %r, sent at %r" % (mid, rt, st))
                    else:
                        lo, hi = st + max(s["rates"]["min"], 0.0), st + max(s["rates"]["max"], 0.0)
                        if not (lo <= rt <= hi):
                            fail("C06:arrival", "message %d sent at %r arrived at %r outside [%r, %r]" % (mid, st, rt, lo, hi))
                    # ---- C08: nothing in flight at a crash is delivered later; a crashed node handles nothing
                    for (cpos, cn) in crash_events:
                        if s["pos"] < cpos < pos and (s["sn"] == cn or s["dn"] == cn):
                            fail("C08:inflight_cancelled", "message %d was in flight from/to node %d at its crash and was delivered later" % (mid, cn))
                    if dn in crashed:
                        fail("C08:silent_while_crashed", "process %d on crashed node %d received message %d" % (dp, dn, mid))
                if dp in proc_start:
                    proc_start[dp]["recv"] += 1
            elif kind == "LocalMessageSent":
                unread.setdefault(f[2], []).append(m)
            elif kind == "LocalMessageReceived":
                if f[1] in crashed:
                    fail("C08:silent_while_crashed", "local message handled on crashed node %d" % f[1])
            elif kind == "TimerSet":
                tid, nm, nd, pr, dl = f[1], f[2], f[3], f[4], f[5]
                timers[tid] = {"t": t, "name": nm, "node": nd, "proc": pr, "delay": dl, "pos": pos, "fired": 0, "dead": False}
                old = pending.get((pr, nm))
                if old is not None:
                    timers[old]["dead"] = True      # overridden: must never fire
                pending[(pr, nm)] = tid
            elif kind in ("TimerFired", "TimerCancelled"):
                tid, nm, nd, pr = f[1], f[2], f[3], f[4]
                tm = timers.get(tid)
                if tm is None or (tm["name"], tm["proc"]) != (nm, pr):
                    fail("C17:ids", "%s refers to an unknown timer id %d" % (kind, tid))
                else:
                    if pending.get((pr, nm)) != tid:
                        fail("C07:timer_contract", "%s of timer id %d (%d,%d) which is not the pending instance (overridden, cancelled or fired before)" % (kind, tid, pr, nm))
                    else:
                        del pending[(pr, nm)]
                    if kind == "TimerFired":
                        tm["fired"] += 1
                        if tm["fired"] > 1:
                            fail("C07:timer_contract", "timer id %d fired twice" % tid)
                        exp = bits_f64(tm["t"]) + max(bits_f64(tm["delay"]), 0.0)
                        if bits_f64(t) != exp:
                            fail("C06:timer_exact", "timer %d set at %r with delay %r fired at %r" % (tid, bits_f64(tm["t"]), bits_f64(tm["delay"]), bits_f64(t)))
                        if nd in crashed:
                            fail("C08:silent_while_crashed", "timer fired on crashed node %d" % nd)
                        for (cpos, cn) in crash_events:
                            if tm["pos"] < cpos < pos and tm["node"] == cn:
                                fail("C08:inflight_cancelled", "timer %d was pending on node %d at its crash and fired later" % (tid, cn))
                    tm["dead"] = True
        # a crash / recovery clears the node's pending timers from the contract state
        if name in ("CRASH", "RECOVER"):
            nd = int(sl[2])
            for key in [k for k, v in pending.items() if timers[v]["node"] == nd]:
                del pending[key]
        # ---- return values (C06 stepping contracts, C17 reads)
        ret = o["ret"] or ""
        q = o["q"]
        if name == "STEP" and q is not None:
            if ret == "BOOL 0" and before_q[1] != 0:
                fail("C06:step", "step returned false with %d live events pending" % before_q[1])
            if ret == "BOOL 1" and before_q[1] == 0:
                fail("C06:step", "step returned true with no live event")
        if name == "UNTILNOEVENTS" and q is not None and q[1] != 0:
            fail("C06:until_no_events", "%d live events left" % q[1])
        if name == "DURATION" and q is not None:
            d = bits_f64(sl[2])
            exp = bits_f64(before_q[0]) + d
            if bits_f64(q[0]) != exp:
                fail("C06:duration", "clock %r after step_for_duration(%r) from %r" % (bits_f64(q[0]), d, bits_f64(before_q[0])))
            if q[2] is not None and not bits_f64(q[2]) > bits_f64(q[0]):
                fail("C06:duration", "an event with time <= the deadline is still pending")
            if (ret == "BOOL 1") != (q[1] > 0):
                fail("C06:duration", "returned %s with %d live events" % (ret, q[1]))
        if name == "STEPS" and q is not None:
            if ret == "BOOL 0" and q[1] != 0:
                fail("C06:steps", "steps returned false with live events left")
        if name == "READ" or name.startswith("UNTILLOCAL"):
            p = int(sl[2])
            if ret.startswith("MSGS") or ret.startswith("OK"):
                got = parse_msgs(ret.split(" ", 1)[1] if " " in ret else "")
                exp = unread.get(p, [])
                if got != exp:
                    fail("C17:read_local", "read of process %d returned %d messages, %d unread local sends" % (p, len(got), len(exp)))
                unread[p] = []
                if ret.startswith("OK") and not got:
                    fail("C06:until_local", "Ok with no message")
            elif ret == "ERR":
                # step_until_local_message_timeout is not among the calls C06 lists (it gives up at its deadline
                # without looking at the outbox): only the two listed calls are held to the contract
                if unread.get(p) and name in ("UNTILLOCAL", "UNTILLOCALMAX"):
                    fail("C06:until_local", "Err although process %d has unread local messages" % p)
                if name == "UNTILLOCAL" and q is not None and q[1] != 0:
                    fail("C06:until_local", "step_until_local_message gave up with live events pending")
        # ---- C17 counters after every call
        for p, (s_, r_, ob, ev) in o["cnt"].items():
            ps = proc_start.get(p)
            if ps is not None and (ps["sent"], ps["recv"]) != (s_, r_):
                fail("C17:counters", "process %d counters (%d,%d), trace (%d,%d)" % (p, s_, r_, ps["sent"], ps["recv"]))
            if ob != len(unread.get(p, [])):
                fail("C17:read_local", "outbox of %d has %d messages, %d unread local sends in the trace" % (p, ob, len(unread.get(p, []))))
        if o["nc"] is not None and o["nc"] != (nc, traffic):
            fail("C17:counters", "network counters %s, trace (%d,%d)" % (o["nc"], nc, traffic))
    # ---- per-send totals
    final_is_drain = any(sl[:2] == ["OP", "UNTILNOEVENTS"] for sl in script[-6:])
    for mid, s in sends.items():
        cross = s["sn"] != s["dn"]
        lim = 3 if (cross and s["rates"]["dupl"] != 0.0) else 1
        if s["recv"] > lim:
            fail("C05:copies", "message %d delivered %d times (limit %d)" % (mid, s["recv"], lim))
        if s["recv"] + s["dropped"] > lim:
            fail("C17:one_fate", "message %d has %d received + %d dropped records for at most %d copies" % (mid, s["recv"], s["dropped"], lim))
        if s["cut"] and not s["drop_at_send"]:
            fail("C05:link_enabled", "message %d sent over a cut path was not dropped at the send" % mid)
        if cross and not s["cut"]:
            if s["rates"]["drop"] >= 1.0 and not s["drop_at_send"]:
                fail("C05:drop_rate", "message %d not dropped with drop rate 1" % mid)
            if s["rates"]["drop"] <= 0.0 and s["drop_at_send"]:
                fail("C05:drop_rate", "message %d dropped with drop rate 0 on an enabled path" % mid)
        if not cross and s["drop_at_send"]:
            fail("C05:same_node", "message %d inside a node was dropped" % mid)
        if final_is_drain and not crash_events and not s["drop_at_send"] and s["recv"] == 0:
            fail("C05:delivered", "message %d was neither dropped nor delivered although the queue was drained and no node crashed" % mid)
    fails.extend(api_timer_contract(ops))
    fails.extend(action_order(ops))
    fails.extend(evlog_times(ops))
    return fails


CLAUSES = ["C05:sent_before", "C05:link_enabled", "C05:payload", "C05:copies", "C05:drop_rate", "C05:same_node",
           "C05:delivered", "C06:time_monotone", "C06:arrival", "C06:timer_exact", "C06:step", "C06:steps", "C06:duration",
           "C06:until_no_events", "C06:until_local", "C07:timer_contract", "C07:api_contract", "C17:evlog_times", "C17:evlog_actions", "C17:action_order", "C06:creation_order", "C08:recovery_clean", "C08:inflight_cancelled",
           "C08:silent_while_crashed", "C17:ids", "C17:one_fate", "C17:counters", "C17:read_local"]
