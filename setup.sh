#!/bin/sh
# Build the framework from files on disk only (offline): Coq development, extraction, OCaml driver, Rust harness.
set -e
cd "$(dirname "$0")"
export CARGO_NET_OFFLINE=true
python3 - <<'PY'
import sys
sys.path.insert(0, "tools")
import vlib
r = vlib.build_all()
print("extractor", r.extract_ok, "coq", r.coq_ok, "ocaml", r.ocaml_ok, "harness", r.harness_ok, r.seconds)
if not (r.extract_ok and r.coq_ok and r.ocaml_ok and r.harness_ok):
    print(r.coq_log[-3000:]); print(r.ocaml_log[-3000:]); print(r.harness_log[-3000:])
    sys.exit(1)
PY
