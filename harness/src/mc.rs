//! MC scenarios: build a System of ScriptProcs, snapshot it with ModelChecker::new and run the real strategies.
use std::cell::RefCell;
use std::collections::{HashMap, HashSet};
use std::fmt::Write;
use std::rc::Rc;

use anysystem::mc::strategies::{Bfs, Dfs};
use anysystem::mc::{
    CollectFn, EventOrderingMode, ExecutionMode, GoalFn, InvariantFn, McState, McSystem, ModelChecker, PruneFn,
    StrategyConfig, VisitedStates,
};
use anysystem::{Message, System};

use crate::canon::*;
use crate::common::*;
use crate::script_proc::*;

#[derive(Clone)]
pub enum NetOp {
    DropRate(f64),
    DuplRate(f64),
    CorruptRate(f64),
    DropIn(u64),
    DropOut(u64),
    Disconnect(u64),
    DisableLink(u64, u64),
    Partition(Vec<u64>, Vec<u64>),
    Reset,
}

#[derive(Clone)]
pub enum CbOp {
    Local(u64, u64, Message),
    Crash(u64),
    Mode(bool),
    Net(NetOp),
}

pub fn netop_of(t: &mut Toks) -> NetOp {
    match t.tok() {
        "DROPRATE" => NetOp::DropRate(t.f64()),
        "DUPLRATE" => NetOp::DuplRate(t.f64()),
        "CORRUPTRATE" => NetOp::CorruptRate(t.f64()),
        "DROPIN" => NetOp::DropIn(t.u64()),
        "DROPOUT" => NetOp::DropOut(t.u64()),
        "DISCONNECT" => NetOp::Disconnect(t.u64()),
        "DISABLELINK" => {
            let a = t.u64();
            let b = t.u64();
            NetOp::DisableLink(a, b)
        }
        "PARTITION" => {
            let k = t.usize();
            let g1 = (0..k).map(|_| t.u64()).collect();
            let k2 = t.usize();
            let g2 = (0..k2).map(|_| t.u64()).collect();
            NetOp::Partition(g1, g2)
        }
        "RESET" => NetOp::Reset,
        s => panic!("bad netop {}", s),
    }
}

pub fn apply_cb(sys: &mut McSystem, ops: &[CbOp]) {
    for o in ops {
        match o {
            CbOp::Local(n, p, m) => sys.send_local_message(nname(*n), pname(*p), m.clone()),
            CbOp::Crash(n) => sys.crash_node(nname(*n)),
            CbOp::Mode(mf) => sys.set_event_ordering_mode(if *mf {
                EventOrderingMode::MessagesFirst
            } else {
                EventOrderingMode::Normal
            }),
            CbOp::Net(no) => {
                let net = sys.network();
                match no {
                    NetOp::DropRate(r) => net.set_drop_rate(*r),
                    NetOp::DuplRate(r) => net.set_dupl_rate(*r),
                    NetOp::CorruptRate(r) => net.set_corrupt_rate(*r),
                    NetOp::DropIn(n) => net.drop_incoming(&nname(*n)),
                    NetOp::DropOut(n) => net.drop_outgoing(&nname(*n)),
                    NetOp::Disconnect(n) => net.disconnect_node(&nname(*n)),
                    NetOp::DisableLink(a, b) => net.disable_link(&nname(*a), &nname(*b)),
                    NetOp::Partition(g1, g2) => net.partition(
                        &g1.iter().map(|x| nname(*x)).collect(),
                        &g2.iter().map(|x| nname(*x)).collect(),
                    ),
                    NetOp::Reset => net.reset(),
                }
            }
        }
    }
}

fn find_proc<'a>(s: &'a McState, p: u64) -> Option<&'a anysystem::mc::verif::ProcessEntryState> {
    let name = pname(p);
    for ns in s.node_states.values() {
        if let Some(pe) = ns.proc_states.get(&name) {
            return Some(pe);
        }
    }
    None
}
fn outbox_len(s: &McState, p: u64) -> i64 {
    find_proc(s, p).map(|pe| pe.local_outbox.len() as i64).unwrap_or(-1)
}
fn hist_len(s: &McState, p: u64) -> i64 {
    find_proc(s, p).map(|pe| script_state(&pe.proc_state).hist.len() as i64).unwrap_or(-1)
}

#[derive(Clone, Default)]
pub struct PredSpec {
    pub inv: Vec<String>,
    pub goal: Vec<String>,
    pub prune: Vec<String>,
    pub collect: Vec<String>,
}

fn p_u64(s: &str) -> u64 {
    s.parse().unwrap()
}

pub type Recorder = Rc<RefCell<Vec<String>>>;

// the scenario's predicates as pure functions of the state
pub fn e_inv(spec: &[String], s: &McState) -> Option<u64> {
    let sp: Vec<&str> = spec.iter().map(|x| x.as_str()).collect();
    match sp.as_slice() {
        ["NONE"] => None,
        ["OUTBOXMAX", p, k] => (outbox_len(s, p_u64(p)) > p_u64(k) as i64).then_some(1),
        ["HISTMAX", p, k] => (hist_len(s, p_u64(p)) > p_u64(k) as i64).then_some(2),
        ["DEPTHMAX", k] => (s.depth > p_u64(k)).then_some(3),
        _ => panic!("bad INV"),
    }
}
pub fn e_goal(spec: &[String], s: &McState) -> Option<u64> {
    let sp: Vec<&str> = spec.iter().map(|x| x.as_str()).collect();
    match sp.as_slice() {
        ["NONE"] => None,
        ["NOEVENTS"] => s.events.is_empty().then_some(10),
        ["OUTBOXEQ", p, k] => (outbox_len(s, p_u64(p)) == p_u64(k) as i64).then_some(11),
        ["DEPTHGE", k] => (s.depth >= p_u64(k)).then_some(12),
        _ => panic!("bad GOAL"),
    }
}
pub fn e_prune(spec: &[String], s: &McState) -> Option<u64> {
    let sp: Vec<&str> = spec.iter().map(|x| x.as_str()).collect();
    match sp.as_slice() {
        ["NONE"] => None,
        ["DEPTHGT", k] => (s.depth > p_u64(k)).then_some(20),
        ["SENTGT", k] => {
            let lim = p_u64(k);
            s.node_states
                .values()
                .any(|ns| ns.proc_states.values().any(|pe| pe.sent_message_count > lim))
                .then_some(21)
        }
        _ => panic!("bad PRUNE"),
    }
}
pub fn e_collect(spec: &[String], s: &McState) -> bool {
    let sp: Vec<&str> = spec.iter().map(|x| x.as_str()).collect();
    match sp.as_slice() {
        ["NONE"] => false,
        ["OUTBOXEQ", p, k] => outbox_len(s, p_u64(p)) == p_u64(k) as i64,
        ["NOEVENTS"] => s.events.is_empty(),
        ["DEPTHEQ", k] => s.depth == p_u64(k),
        ["DEPTHLE", k] => s.depth <= p_u64(k),
        ["ALL"] => true,
        _ => panic!("bad COLLECT"),
    }
}

fn verdict_text(ps: &PredSpec, s: &McState) -> String {
    if let Some(k) = e_inv(&ps.inv, s) {
        return format!("E{}", k);
    }
    if let Some(k) = e_goal(&ps.goal, s) {
        return format!("G{}", k);
    }
    if let Some(k) = e_prune(&ps.prune, s) {
        return format!("P{}", k);
    }
    if s.events.is_empty() {
        "E0".to_string()
    } else {
        "N".to_string()
    }
}

/// (does a pending event touch a process of a crashed node, digest of the crashed nodes' processes)
fn crash_info(s: &McState) -> (String, String) {
    let mut cprocs: Vec<String> = vec![];
    let mut text = String::new();
    for (name, ns) in &s.node_states {
        if ns.verif_is_crashed() {
            text.push_str(&num(name).to_string());
            for (pn, pe) in &ns.proc_states {
                cprocs.push(pn.clone());
                text.push_str(&c_pentry(
                    pn,
                    &script_state(&pe.proc_state),
                    &pe.local_outbox,
                    &pe.pending_timers,
                    pe.sent_message_count,
                    pe.received_message_count,
                    &pe.event_log,
                ));
            }
        }
    }
    let bad = s.events.verif_events().iter().any(|(_, e)| match e {
        anysystem::mc::McEvent::MessageReceived { src, dst, .. } => cprocs.contains(src) || cprocs.contains(dst),
        anysystem::mc::McEvent::TimerFired { proc, .. } => cprocs.contains(proc),
        _ => false,
    });
    (b01(bad).to_string(), fnv(&text))
}

/// C19: the battery of library predicates (same list as coq/theories/Model/PredInst.v), evaluated with the real
/// anysystem::mc::predicates; '1' = Err / Some / true, '0' = Ok / None / false, 'x' = the predicate panicked
type BFn = Box<dyn FnMut(&McState) -> char>;

thread_local! {
    /// the predicate instances of the battery, created ONCE per run (as a user creates them once per StrategyConfig)
    /// and evaluated on every state in exploration order: a predicate whose answer depends on earlier evaluations
    /// differs from its (stateless) specification
    static BATTERY: RefCell<Option<(u64, u64, Vec<BFn>)>> = RefCell::new(None);
}

pub fn reset_battery() {
    BATTERY.with(|b| *b.borrow_mut() = None);
}

fn bchar(r: std::thread::Result<bool>) -> char {
    match r {
        Ok(true) => '1',
        Ok(false) => '0',
        Err(_) => 'x',
    }
}

fn build_battery(n0: u64, n1: u64) -> Vec<BFn> {
    use anysystem::logger::LogEntry;
    use anysystem::mc::predicates::{collects, goals, invariants, prunes};
    use std::collections::HashSet;
    fn is_recv(e: &LogEntry) -> bool {
        matches!(e, LogEntry::McMessageReceived { .. })
    }
    fn is_fired(e: &LogEntry) -> bool {
        matches!(e, LogEntry::McTimerFired { .. })
    }
    fn recv_by(e: &LogEntry, p: &String) -> bool {
        matches!(e, LogEntry::McMessageReceived { dst, .. } if dst == p)
    }
    // a predicate that matches one entry for SEVERAL processes (sender or receiver)
    fn involves(e: &LogEntry, p: &String) -> bool {
        matches!(e, LogEntry::McMessageReceived { src, dst, .. } if dst == p || src == p)
    }
    let d0 = "plain".to_string();
    let d1 = "{\"k\": \"v\"}".to_string();
    let mut v: Vec<BFn> = vec![];
    let inv = |mut f: anysystem::mc::InvariantFn| -> BFn {
        Box::new(move |s: &McState| bchar(std::panic::catch_unwind(std::panic::AssertUnwindSafe(|| f(s).is_err()))))
    };
    let opt = |mut f: Box<dyn FnMut(&McState) -> Option<String>>| -> BFn {
        Box::new(move |s: &McState| bchar(std::panic::catch_unwind(std::panic::AssertUnwindSafe(|| f(s).is_some()))))
    };
    let col = |mut f: anysystem::mc::CollectFn| -> BFn {
        Box::new(move |s: &McState| bchar(std::panic::catch_unwind(std::panic::AssertUnwindSafe(|| f(s)))))
    };
    for d in [0u64, 1, 2, 3, 5] { v.push(inv(invariants::state_depth(d))); }
    for d in [1u64, 2, 4, 8] { v.push(inv(invariants::state_depth_current_run(d))); }
    let set = |x: Vec<&String>| -> HashSet<String> { x.into_iter().cloned().collect() };
    v.push(inv(invariants::received_messages(nname(n0), pname(0), set(vec![]))));
    v.push(inv(invariants::received_messages(nname(n0), pname(0), set(vec![&d0]))));
    v.push(inv(invariants::received_messages(nname(n0), pname(0), set(vec![&d0, &d1]))));
    v.push(inv(invariants::received_messages(nname(n1), pname(1), set(vec![&d1]))));
    v.push(inv(invariants::received_messages(nname(n1), pname(0), set(vec![&d0]))));
    for n in [0usize, 1, 2] {
        v.push(opt(goals::got_n_local_messages(nname(n0), pname(0), n)));
        v.push(opt(goals::got_n_local_messages(nname(n1), pname(1), n)));
    }
    v.push(opt(goals::no_events()));
    v.push(opt(goals::always_ok()));
    for d in [0u64, 2, 4] { v.push(opt(goals::depth_reached(d))); }
    for n in [1usize, 2, 3] {
        v.push(opt(goals::event_happened_n_times_current_run(is_recv, n)));
        v.push(opt(goals::event_happened_n_times_current_run(is_fired, n)));
    }
    for d in [0u64, 2, 4] { v.push(opt(prunes::state_depth(d))); }
    for k in [0u64, 1, 2] { v.push(opt(prunes::sent_messages_limit(k))); }
    for l in [0usize, 1, 3] { v.push(opt(prunes::events_limit(is_recv, l))); }
    for l in [0usize, 1, 2] { v.push(opt(prunes::events_limit_per_proc(recv_by, vec![pname(0), pname(1)], l))); }
    for l in [1usize, 2] { v.push(opt(prunes::events_limit_per_proc(involves, vec![pname(0), pname(1)], l))); }
    for l in [1usize, 2] { v.push(opt(prunes::events_limit_per_proc(involves, vec![pname(1), pname(0)], l))); }
    v.push(opt(prunes::events_limit_per_proc(involves, vec![pname(2), pname(1), pname(0)], 1)));
    for n in [1usize, 2] { v.push(opt(prunes::event_happened_n_times_current_run(is_recv, n))); }
    v.push(opt(prunes::proc_permutations(&[pname(0), pname(1)])));
    v.push(opt(prunes::proc_permutations(&[pname(1), pname(0)])));
    v.push(opt(prunes::proc_permutations(&[pname(0), pname(1), pname(2)])));
    v.push(opt(prunes::proc_permutations(&[pname(2), pname(0)])));
    for d in [0u64, 2] { v.push(col(collects::state_depth(d))); }
    v.push(col(collects::no_events()));
    v.push(col(collects::got_n_local_messages(nname(n0), pname(0), 1)));
    v.push(col(collects::events_limit(is_fired, 0)));
    v.push(col(collects::event_happened_n_times_current_run(is_fired, 1)));
    // combinators
    v.push(inv(invariants::all_invariants(vec![invariants::state_depth(2), invariants::state_depth_current_run(4)])));
    v.push(opt(goals::any_goal(vec![goals::no_events(), goals::depth_reached(3)])));
    v.push(opt(goals::all_goals(vec![goals::no_events(), goals::depth_reached(3)])));
    v.push(opt(prunes::any_prune(vec![prunes::state_depth(4), prunes::sent_messages_limit(1)])));
    v.push(col(collects::any_collect(vec![collects::state_depth(3), collects::no_events()])));
    v.push(col(collects::all_collects(vec![collects::state_depth(1), collects::no_events()])));
    v
}

pub fn pred_battery(n0: u64, n1: u64, s: &McState) -> String {
    let mut out = BATTERY.with(|b| {
        let mut b = b.borrow_mut();
        let stale = !matches!(&*b, Some((a0, a1, _)) if *a0 == n0 && *a1 == n1);
        if stale {
            *b = Some((n0, n1, build_battery(n0, n1)));
        }
        let fs = &mut b.as_mut().unwrap().2;
        fs.iter_mut().map(|f| f(s)).collect::<String>()
    });
    // the crate's defaults are private functions; StrategyConfig::default() carries them
    let mut dflt = StrategyConfig::default();
    out.push(if dflt.verif_default_invariant_is_err(s) { '1' } else { '0' });
    out.push(if dflt.verif_default_goal_is_some(s) { '1' } else { '0' });
    out.push(if dflt.verif_default_prune_is_some(s) { '1' } else { '0' });
    out.push(if dflt.verif_default_collect(s) { '1' } else { '0' });
    out
}

thread_local! {
    /// mismatches between the processes' own view of their pending timers and the framework's bookkeeping (C07)
    pub static XTM: std::cell::RefCell<Vec<String>> = std::cell::RefCell::new(Vec::new());
}

thread_local! {
    /// reduced observations (no access to the process state): used when processes are Python twins (C18)
    pub static REDUCED: std::cell::Cell<bool> = std::cell::Cell::new(false);
}

thread_local! {
    /// nodes of processes 0 and 1 of the scenario being run (for the predicate battery)
    pub static BATTERY_NODES: std::cell::Cell<(u64, u64)> = std::cell::Cell::new((0, 0));
}

/// one line describing a state: digest form, or the full canonical text in verbose mode
pub fn state_line(ps: &PredSpec, s: &McState, verbose: bool) -> String {
    if REDUCED.with(|c| c.get()) {
        // what does not depend on the representation of the process state
        let obs: Vec<String> = s
            .node_states
            .values()
            .flat_map(|ns| ns.proc_states.iter())
            .map(|(pn, pe)| {
                format!(
                    "{}:{}:{}:{}:[{}]",
                    num(pn),
                    pe.sent_message_count,
                    pe.received_message_count,
                    pe.event_log.len(),
                    pe.local_outbox.iter().map(c_msg).collect::<Vec<_>>().join(";")
                )
            })
            .collect();
        let (n0, n1) = BATTERY_NODES.with(|c| c.get());
        return format!(
            "d={} ne={} st={} tr={} ob={} v={} pb={}",
            s.depth,
            s.events.verif_events().len(),
            fnv(&c_store_red(&s.events)),
            fnv(&c_trace(&s.trace)),
            fnv(&obs.join("|")),
            verdict_text(ps, s),
            pred_battery(n0, n1, s)
        );
    }
    if verbose {
        c_state(s)
    } else {
        let (x, k) = crash_info(s);
        format!(
            "d={} cr=[{}] ne={} core={} red={} eqp={} pv={} tr={} c={} v={} x={} k={} pb={}",
            s.depth,
            s.node_states
                .iter()
                .filter(|(_, ns)| ns.verif_is_crashed())
                .map(|(n, _)| num(n).to_string())
                .collect::<Vec<_>>()
                .join(","),
            s.events.verif_events().len(),
            fnv(&c_state_core(s)),
            fnv(&c_state_red(s)),
            fnv(&c_state_eqp(s)),
            fnv(&c_state_pv(s)),
            fnv(&c_trace(&s.trace)),
            b01(e_collect(&ps.collect, s)),
            verdict_text(ps, s),
            x,
            k,
            {
                let (n0, n1) = BATTERY_NODES.with(|c| c.get());
                pred_battery(n0, n1, s)
            }
        )
    }
}

pub fn mk_config(ps: &PredSpec, vm: &str, debug: bool, rec: Recorder, verbose: bool, fuel: u64) -> StrategyConfig {
    let psc = ps.clone();
    let invariant: InvariantFn = Box::new(move |s: &McState| {
        // the model's fuel = number of check_state calls; stop the real run at the same point
        if rec.borrow().len() as u64 >= fuel {
            return Err("FUEL".to_string());
        }
        rec.borrow_mut().push(state_line(&psc, s, verbose));
        // C07 (model checking): the framework's pending-timer bookkeeping against what the processes themselves asked for
        if !REDUCED.with(|c| c.get()) {
            let idx = rec.borrow().len() - 1;
            for ns in s.node_states.values() {
                if ns.verif_is_crashed() {
                    continue;
                }
                for (pn, pe) in &ns.proc_states {
                    let st = crate::script_proc::script_state(&pe.proc_state);
                    if !st.tracks {
                        continue;
                    }
                    // C09: the event log of the process in this state tells the message deliveries the process itself recorded
                    {
                        use anysystem::ProcessEvent as PE;
                        let mut fwk: Vec<Vec<u64>> = vec![];
                        for e in &pe.event_log {
                            match &e.event {
                                PE::MessageReceived { msg, src, .. } => fwk.push(crate::script_proc::msg_key(vec![1, num(src)], msg)),
                                _ => {}
                            }
                        }
                        // (in model checking the log records the network messages a process received and its actions,
                        // not timer firings and local messages)
                        let own: Vec<&Vec<u64>> = st.hist.iter().map(|h| &h.key).filter(|k| k[0] == 1).collect();
                        if fwk.len() != own.len() || fwk.iter().zip(own.iter()).any(|(a, b)| a != *b) {
                            let k = fwk.iter().zip(own.iter()).position(|(a, b)| a != *b).unwrap_or(fwk.len().min(own.len()));
                            XTM.with(|x| x.borrow_mut().push(format!("XLOG {} {} entries log={} own={} first_difference_at={}", idx, num(pn), fwk.len(), own.len(), k)));
                        }
                    }
                    let mut fw: Vec<u64> = pe.pending_timers.keys().map(|k| num(k)).collect();
                    fw.sort();
                    let own: Vec<u64> = st.ptimers.iter().cloned().collect();
                    if fw != own {
                        XTM.with(|x| x.borrow_mut().push(format!("XTM {} {} own={:?} framework={:?}", idx, num(pn), own, fw)));
                    }
                }
            }
        }
        match e_inv(&psc.inv, s) {
            Some(k) => Err(k.to_string()),
            None => Ok(()),
        }
    });
    let g = ps.goal.clone();
    let goal: GoalFn = Box::new(move |s: &McState| e_goal(&g, s).map(|k| k.to_string()));
    let pr = ps.prune.clone();
    let prune: PruneFn = Box::new(move |s: &McState| e_prune(&pr, s).map(|k| k.to_string()));
    let c = ps.collect.clone();
    let collect: CollectFn = Box::new(move |s: &McState| e_collect(&c, s));
    let visited = match vm {
        "FULL" => VisitedStates::Full(HashSet::default()),
        "PARTIAL" => VisitedStates::Partial(HashSet::default()),
        "DISABLED" => VisitedStates::Disabled,
        s => panic!("bad visited mode {}", s),
    };
    StrategyConfig::default()
        .invariant(invariant)
        .goal(goal)
        .prune(prune)
        .collect(collect)
        .execution_mode(if debug { ExecutionMode::Debug } else { ExecutionMode::Default })
        .visited_states(visited)
}

pub struct SysSpec {
    pub nodes: Vec<(u64, f64)>,
    pub procs: Vec<(u64, u64, u64, u64, usize)>,
    pub rows: HashMap<u64, Vec<Vec<Act>>>,
    pub net: (f64, f64, f64, f64, f64),
}

impl SysSpec {
    pub fn new() -> Self {
        SysSpec { nodes: vec![], procs: vec![], rows: HashMap::new(), net: (0.0, 0.0, 0.0, 1.0, 1.0) }
    }
    /// returns true if the line was a system-description line
    pub fn parse_line(&mut self, kw: &str, t: &mut Toks) -> bool {
        match kw {
            "NODE" => {
                let n = t.u64();
                let sk = t.f64();
                self.nodes.push((n, sk));
            }
            "PROC" => {
                let p = t.u64();
                let n = t.u64();
                let cap = t.u64();
                let rt = t.u64();
                let nd = t.usize();
                self.procs.push((p, n, cap, rt, nd));
            }
            "ROW" => {
                let p = t.u64();
                let k = t.usize();
                let acts: Vec<Act> = (0..k).map(|_| act_of(t)).collect();
                self.rows.entry(p).or_default().push(acts);
            }
            "NET" => {
                let dr = t.f64();
                let du = t.f64();
                let co = t.f64();
                let mn = t.f64();
                let mx = t.f64();
                self.net = (dr, du, co, mn, mx);
            }
            "CLOCK" => {}
            _ => return false,
        }
        true
    }
    pub fn build(&self, seed: u64) -> System {
        let mut sys = System::new(seed);
        for (n, _) in &self.nodes {
            sys.add_node(&nname(*n));
        }
        for (p, n, cap, rt, nd) in &self.procs {
            let rows = self.rows.get(p).cloned().unwrap_or_default();
            sys.add_process(&pname(*p), Box::new(ScriptProc::new(*cap, rows, *rt, *nd)), &nname(*n));
        }
        for (n, sk) in &self.nodes {
            sys.set_node_clock_skew(&nname(*n), *sk);
        }
        {
            let mut net = sys.network();
            net.set_delays(self.net.3, self.net.4);
            net.set_drop_rate(self.net.0);
            net.set_dupl_rate(self.net.1);
            net.set_corrupt_rate(self.net.2);
        }
        sys
    }
}

pub fn run(sc: &Scenario) -> String {
    run_lines(&sc.lines, None, None)
}

/// runs MC scenario lines; `pre` = an already created checker (hand-off from a simulation) and the nodes of
/// processes 0 and 1 (for the predicate battery)
pub fn run_lines(lines: &[String], pre: Option<ModelChecker>, pre_nodes: Option<(u64, u64)>) -> String {
    let mut out = String::new();
    let mut spec = SysSpec::new();
    let mut verbose = false;
    let mut cb: Vec<CbOp> = vec![];
    let mut ps = PredSpec {
        inv: vec!["NONE".into()],
        goal: vec!["NONE".into()],
        prune: vec!["NONE".into()],
        collect: vec!["NONE".into()],
    };
    let mut checker: Option<ModelChecker> = pre;
    let mut last_collected: HashSet<McState> = HashSet::new();
    for line in lines {
        let mut t = Toks::new(line);
        let kw = t.tok();
        if spec.parse_line(kw, &mut t) {
            continue;
        }
        match kw {
            "VERBOSE" => verbose = true,
            "CB" => match t.tok() {
                "LOCAL" => {
                    let n = t.u64();
                    let p = t.u64();
                    let m = t.msg();
                    cb.push(CbOp::Local(n, p, m));
                }
                "CRASH" => cb.push(CbOp::Crash(t.u64())),
                "MODE" => cb.push(CbOp::Mode(t.bool())),
                "NET" => cb.push(CbOp::Net(netop_of(&mut t))),
                s => panic!("bad CB {}", s),
            },
            "PRED" => {
                let which = t.tok();
                let mut rest = vec![];
                while let Some(x) = t.try_tok() {
                    rest.push(x.to_string());
                }
                match which {
                    "INV" => ps.inv = rest,
                    "GOAL" => ps.goal = rest,
                    "PRUNE" => ps.prune = rest,
                    "COLLECT" => ps.collect = rest,
                    s => panic!("bad PRED {}", s),
                }
            }
            "RUN" | "RUNFROM" => {
                let strat = t.tok().to_string();
                let vm = t.tok().to_string();
                let debug = t.bool();
                let fuel = t.u64();
                writeln!(out, "{}", kw).unwrap();
                {
                    let node_of = |p: u64| spec.procs.iter().find(|x| x.0 == p).map(|x| x.1).unwrap_or(0);
                    BATTERY_NODES.with(|c| c.set(pre_nodes.unwrap_or((node_of(0), node_of(1)))));
                }
                if checker.is_none() {
                    let sys = spec.build(12345);
                    checker = Some(ModelChecker::new(&sys));
                }
                let mc = checker.as_mut().unwrap();
                let before = mc.verif_system().verif_get_state();
                writeln!(out, "BEFORE {}", state_line(&ps, &before, verbose)).unwrap();
                reset_battery();     // the predicates of the battery are created once per run
                let rec: Recorder = Rc::new(RefCell::new(vec![]));
                let cfg = mk_config(&ps, &vm, debug, rec.clone(), verbose, fuel);
                let cbops = cb.clone();
                let res = std::panic::catch_unwind(std::panic::AssertUnwindSafe(|| {
                    if kw == "RUN" {
                        match strat.as_str() {
                            "BFS" => mc.run_with_change::<Bfs>(cfg, |s| apply_cb(s, &cbops)),
                            "DFS" => mc.run_with_change::<Dfs>(cfg, |s| apply_cb(s, &cbops)),
                            s => panic!("bad strategy {}", s),
                        }
                    } else {
                        let starts = last_collected.clone();
                        match strat.as_str() {
                            "BFS" => mc.run_from_states_with_change::<Bfs>(cfg, starts, |s| apply_cb(s, &cbops)),
                            "DFS" => mc.run_from_states_with_change::<Dfs>(cfg, starts, |s| apply_cb(s, &cbops)),
                            s => panic!("bad strategy {}", s),
                        }
                    }
                }));
                cb.clear();
                match res {
                    Err(_) => {
                        // the states evaluated before the panic (information for the monitors; not compared)
                        for (j, l) in rec.borrow().iter().enumerate() {
                            writeln!(out, "#CHECK {} {}", j, l).unwrap();
                        }
                        writeln!(out, "RESULT PANIC").unwrap();
                        // the checker is in an undefined state after a panic
                        return out;
                    }
                    Ok(r) => {
                        let out_of_fuel = matches!(&r, Err(e) if e.message() == "FUEL");
                        if !out_of_fuel {
                            for (j, l) in rec.borrow().iter().enumerate() {
                                writeln!(out, "CHECK {} {}", j, l).unwrap();
                            }
                            XTM.with(|x| {
                                for l in x.borrow().iter().take(5) {
                                    writeln!(out, "{}", l).unwrap();
                                }
                            });
                        }
                        XTM.with(|x| x.borrow_mut().clear());
                        match r {
                            Ok(stats) => {
                                writeln!(out, "RESULT OK").unwrap();
                                let mut st: Vec<(u64, u32)> =
                                    stats.statuses.iter().map(|(k, v)| (p_u64(k), *v)).collect();
                                st.sort();
                                for (k, v) in st {
                                    writeln!(out, "STATUS {} {}", k, v).unwrap();
                                }
                                let mut ds: Vec<String> =
                                    stats
                                    .collected_states
                                    .iter()
                                    .map(|x| format!("{}:{}", fnv(&c_state_red(x)), fnv(&c_trace(&x.trace))))
                                    .collect();
                                ds.sort();
                                writeln!(out, "COLLECTED {} {}", ds.len(), ds.join(" ")).unwrap();
                                last_collected = stats.collected_states;
                            }
                            Err(_) if out_of_fuel => {
                                writeln!(out, "RESULT FUEL").unwrap();
                                return out;
                            }
                            Err(e) => {
                                let m = if e.message() == "nothing left to do to reach the goal" {
                                    "0".to_string()
                                } else {
                                    e.message()
                                };
                                writeln!(out, "RESULT ERR {} {} {}", m, e.trace().len(), fnv(&c_trace(e.trace())))
                                    .unwrap();
                            }
                        }
                        let after = mc.verif_system().verif_get_state();
                        writeln!(out, "AFTER {}", state_line(&ps, &after, verbose)).unwrap();
                        writeln!(out, "AFTERMODE {}", b01(mc.verif_system().verif_messages_first())).unwrap();
                    }
                }
            }
            s => panic!("bad MC line {}", s),
        }
    }
    out
}
