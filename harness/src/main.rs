//! Correspondence harness: runs scenario files against the real anysystem crate and prints observations.
mod canon;
mod common;
mod handoff;
mod mc;
mod mcnet;
mod script_proc;
mod sim;
mod store;

use common::*;

fn run_scenario(sc: &Scenario) -> String {
    match sc.cls.as_str() {
        "STORE" => store::run(sc),
        "MC" => mc::run(sc),
        "SIM" => sim::run(sc),
        "HANDOFF" => handoff::run(sc),
        "PYTWIN" => handoff::run_twins(sc),
        c => format!("UNSUPPORTED {}\n", c),
    }
}

fn main() {
    let args: Vec<String> = std::env::args().collect();
    if args.len() >= 4 && args[1] == "draws" {
        // harness draws <n> <seed>...
        let n: usize = args[2].parse().unwrap();
        for s in &args[3..] {
            let seed: u64 = s.parse().unwrap();
            println!("{} {}", seed, sim::draws(seed, n));
        }
        return;
    }
    if args.len() < 3 || args[1] != "run" {
        eprintln!("usage: harness run <scenario-file>");
        std::process::exit(3);
    }
    // keep panic messages of expected panics out of the way
    std::panic::set_hook(Box::new(|_| {}));
    let scs = read_scenarios(&args[2]);
    let mut out = String::new();
    for sc in &scs {
        out.push_str(&format!("BEGIN {}\n", sc.sid));
        let r = std::panic::catch_unwind(std::panic::AssertUnwindSafe(|| run_scenario(sc)));
        match r {
            Ok(s) => {
                out.push_str(&s);
                // C01: the same scenario again in this OS process (fresh hash maps) must give the same history
                if std::env::var("ASV_REPEAT").is_ok() {
                    let r2 = std::panic::catch_unwind(std::panic::AssertUnwindSafe(|| run_scenario(sc)));
                    match r2 {
                        Ok(s2) if s2 == s => out.push_str("#REPEAT same\n"),
                        Ok(s2) => {
                            let d = s.lines().zip(s2.lines()).position(|(a, b)| a != b).unwrap_or(0);
                            out.push_str(&format!(
                                "REPEAT-DIFFERS line {} first={:?} second={:?}\n",
                                d,
                                s.lines().nth(d),
                                s2.lines().nth(d)
                            ));
                        }
                        Err(_) => out.push_str("REPEAT-DIFFERS second run panicked\n"),
                    }
                }
            }
            Err(_) => out.push_str("HARNESSPANIC\n"),
        }
        out.push_str(&format!("END {}\n", sc.sid));
    }
    print!("{}", out);
}
