//! Scenario file reader, token stream, name mapping and printers shared by all scenario classes.
use anysystem::Message;

pub struct Scenario {
    pub cls: String,
    pub sid: String,
    pub lines: Vec<String>,
}

pub fn read_scenarios(path: &str) -> Vec<Scenario> {
    let text = std::fs::read_to_string(path).expect("cannot read scenario file");
    let mut res = Vec::new();
    let mut cur: Option<Scenario> = None;
    for l in text.lines() {
        let l = l.trim();
        if l.is_empty() || l.starts_with('#') {
            continue;
        }
        if l.starts_with("SCENARIO") {
            let p: Vec<&str> = l.split_whitespace().collect();
            cur = Some(Scenario { cls: p[1].to_string(), sid: p[2].to_string(), lines: Vec::new() });
        } else if l == "END" {
            res.push(cur.take().expect("END without SCENARIO"));
        } else {
            cur.as_mut().expect("line outside scenario").lines.push(l.to_string());
        }
    }
    res
}

pub struct Toks<'a> {
    it: std::str::SplitWhitespace<'a>,
}

impl<'a> Toks<'a> {
    pub fn new(line: &'a str) -> Self {
        Toks { it: line.split_whitespace() }
    }
    pub fn tok(&mut self) -> &'a str {
        self.it.next().expect("unexpected end of line")
    }
    pub fn try_tok(&mut self) -> Option<&'a str> {
        self.it.next()
    }
    pub fn u64(&mut self) -> u64 {
        self.tok().parse::<u64>().expect("bad number")
    }
    pub fn usize(&mut self) -> usize {
        self.u64() as usize
    }
    pub fn bool(&mut self) -> bool {
        self.u64() != 0
    }
    pub fn f64(&mut self) -> f64 {
        f64::from_bits(self.u64())
    }
    pub fn bytes(&mut self) -> Vec<u8> {
        let n = self.usize();
        (0..n).map(|_| self.u64() as u8).collect()
    }
    pub fn string(&mut self) -> String {
        String::from_utf8(self.bytes()).expect("scenario strings must be UTF-8")
    }
    pub fn msg(&mut self) -> Message {
        let tip = self.string();
        let data = self.string();
        Message::new(tip, data)
    }
}

pub fn pname(n: u64) -> String {
    format!("p{:03}", n)
}
pub fn nname(n: u64) -> String {
    format!("n{:03}", n)
}
pub fn tname(n: u64) -> String {
    format!("t{:03}", n)
}
/// Inverse of the name mappings (strips the one-letter prefix).
pub fn num(name: &str) -> u64 {
    name[1..].parse::<u64>().unwrap_or_else(|_| panic!("not a harness name: {}", name))
}

pub fn str_out(s: &str) -> String {
    let b = s.as_bytes();
    let mut v = vec![b.len().to_string()];
    v.extend(b.iter().map(|x| x.to_string()));
    v.join(" ")
}
pub fn msg_out(m: &Message) -> String {
    format!("{} {}", str_out(&m.tip), str_out(&m.data))
}
pub fn ids_out<I: IntoIterator<Item = usize>>(l: I) -> String {
    l.into_iter().map(|x| x.to_string()).collect::<Vec<_>>().join(" ")
}
pub fn b01(b: bool) -> &'static str {
    if b {
        "1"
    } else {
        "0"
    }
}
