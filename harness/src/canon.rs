//! Canonical text of implementation values; must match ocaml/mc_drv.ml character by character.
use anysystem::logger::LogEntry;
use anysystem::mc::McState;
use anysystem::{EventLogEntry, Message, ProcessEvent, TimerBehavior};

use crate::common::*;
use crate::script_proc::*;

fn bits(x: f64) -> u64 {
    x.to_bits()
}
fn c_ids_u64(l: &[u64]) -> String {
    l.iter().map(|x| x.to_string()).collect::<Vec<_>>().join(",")
}
fn c_names(l: &[String]) -> String {
    l.iter().map(|x| num(x).to_string()).collect::<Vec<_>>().join(",")
}

pub fn c_msg(m: &Message) -> String {
    msg_out(m)
}

pub fn c_pevent(e: &ProcessEvent) -> String {
    match e {
        ProcessEvent::MessageSent { msg, src, dst } => format!("MS {} {} {}", c_msg(msg), num(src), num(dst)),
        ProcessEvent::MessageReceived { msg, src, dst } => format!("MR {} {} {}", c_msg(msg), num(src), num(dst)),
        ProcessEvent::LocalMessageSent { msg } => format!("LS {}", c_msg(msg)),
        ProcessEvent::LocalMessageReceived { msg } => format!("LR {}", c_msg(msg)),
        ProcessEvent::TimerSet { name, delay, behavior } => {
            format!("TS {} {} {}", num(name), bits(*delay), b01(*behavior == TimerBehavior::SetOnce))
        }
        ProcessEvent::TimerFired { name } => format!("TF {}", num(name)),
        ProcessEvent::TimerCancelled { name } => format!("TC {}", num(name)),
    }
}

/// local message ids look like "n000-p001-3"
fn local_id(id: &str) -> String {
    let p: Vec<&str> = id.split('-').collect();
    format!("{} {} {}", num(p[0]), num(p[1]), p[2])
}

pub fn c_log(e: &LogEntry) -> String {
    match e {
        LogEntry::NodeStarted { time, node, node_id } => format!("NodeStarted {} {} {}", bits(*time), num(node), node_id),
        LogEntry::ProcessStarted { time, node, proc } => format!("ProcessStarted {} {} {}", bits(*time), num(node), num(proc)),
        LogEntry::LocalMessageSent { time, msg_id, node: _, proc: _, msg } => {
            format!("LocalMessageSent {} {} {}", bits(*time), local_id(msg_id), c_msg(msg))
        }
        LogEntry::LocalMessageReceived { time, msg_id, node: _, proc: _, msg } => {
            format!("LocalMessageReceived {} {} {}", bits(*time), local_id(msg_id), c_msg(msg))
        }
        LogEntry::MessageSent { time, msg_id, src_node, src_proc, dst_node, dst_proc, msg } => format!(
            "MessageSent {} {} {} {} {} {} {}",
            bits(*time), msg_id, num(src_node), num(src_proc), num(dst_node), num(dst_proc), c_msg(msg)
        ),
        LogEntry::MessageReceived { time, msg_id, src_node, src_proc, dst_node, dst_proc, msg } => format!(
            "MessageReceived {} {} {} {} {} {} {}",
            bits(*time), msg_id, num(src_node), num(src_proc), num(dst_node), num(dst_proc), c_msg(msg)
        ),
        LogEntry::MessageDropped { time, msg_id, src_node, src_proc, dst_node, dst_proc, msg } => format!(
            "MessageDropped {} {} {} {} {} {} {}",
            bits(*time), msg_id, num(src_node), num(src_proc), num(dst_node), num(dst_proc), c_msg(msg)
        ),
        LogEntry::NodeDisconnected { time, node } => format!("NodeDisconnected {} {}", bits(*time), num(node)),
        LogEntry::NodeConnected { time, node } => format!("NodeConnected {} {}", bits(*time), num(node)),
        LogEntry::NodeCrashed { time, node } => format!("NodeCrashed {} {}", bits(*time), num(node)),
        LogEntry::NodeRecovered { time, node } => format!("NodeRecovered {} {}", bits(*time), num(node)),
        LogEntry::TimerSet { time, timer_id, timer_name, node, proc, delay } => format!(
            "TimerSet {} {} {} {} {} {}",
            bits(*time), timer_id, num(timer_name), num(node), num(proc), bits(*delay)
        ),
        LogEntry::TimerFired { time, timer_id, timer_name, node, proc } => {
            format!("TimerFired {} {} {} {} {}", bits(*time), timer_id, num(timer_name), num(node), num(proc))
        }
        LogEntry::TimerCancelled { time, timer_id, timer_name, node, proc } => {
            format!("TimerCancelled {} {} {} {} {}", bits(*time), timer_id, num(timer_name), num(node), num(proc))
        }
        LogEntry::LinkDisabled { time, from, to } => format!("LinkDisabled {} {} {}", bits(*time), num(from), num(to)),
        LogEntry::LinkEnabled { time, from, to } => format!("LinkEnabled {} {} {}", bits(*time), num(from), num(to)),
        LogEntry::DropIncoming { time, node } => format!("DropIncoming {} {}", bits(*time), num(node)),
        LogEntry::PassIncoming { time, node } => format!("PassIncoming {} {}", bits(*time), num(node)),
        LogEntry::DropOutgoing { time, node } => format!("DropOutgoing {} {}", bits(*time), num(node)),
        LogEntry::PassOutgoing { time, node } => format!("PassOutgoing {} {}", bits(*time), num(node)),
        LogEntry::NetworkPartition { time, group1, group2 } => {
            format!("NetworkPartition {} [{}] [{}]", bits(*time), c_names(group1), c_names(group2))
        }
        LogEntry::NetworkReset { time } => format!("NetworkReset {}", bits(*time)),
        LogEntry::ProcessStateUpdated { .. } => "ProcessStateUpdated".to_string(),
        LogEntry::McStarted {} => "McStarted".to_string(),
        LogEntry::McMessageSent { msg, src, dst } => format!("McMessageSent {} {} {}", c_msg(msg), num(src), num(dst)),
        LogEntry::McMessageReceived { msg, src, dst } => {
            format!("McMessageReceived {} {} {}", c_msg(msg), num(src), num(dst))
        }
        LogEntry::McLocalMessageSent { msg, proc } => format!("McLocalMessageSent {} {}", c_msg(msg), num(proc)),
        LogEntry::McLocalMessageReceived { msg, proc } => format!("McLocalMessageReceived {} {}", c_msg(msg), num(proc)),
        LogEntry::McMessageDropped { msg, src, dst } => format!("McMessageDropped {} {} {}", c_msg(msg), num(src), num(dst)),
        LogEntry::McMessageDuplicated { msg, src, dst } => {
            format!("McMessageDuplicated {} {} {}", c_msg(msg), num(src), num(dst))
        }
        LogEntry::McMessageCorrupted { msg, corrupted_msg, src, dst } => {
            format!("McMessageCorrupted {} {} {} {}", c_msg(msg), c_msg(corrupted_msg), num(src), num(dst))
        }
        LogEntry::McTimerSet { proc, timer } => format!("McTimerSet {} {}", num(proc), num(timer)),
        LogEntry::McTimerFired { proc, timer } => format!("McTimerFired {} {}", num(proc), num(timer)),
        LogEntry::McTimerCancelled { proc, timer } => format!("McTimerCancelled {} {}", num(proc), num(timer)),
        LogEntry::McNodeCrashed { node } => format!("McNodeCrashed {}", num(node)),
        LogEntry::McNetworkReset {} => "McNetworkReset".to_string(),
        LogEntry::McNetworkPartition { .. } => "McNetworkPartition".to_string(),
    }
}

/// the one place where the code's order is a heap's internal iteration order (the block of MessageDropped entries
/// logged by one System::crash_node call) is canonicalised by sorting that block
pub fn canon_entries(l: Vec<String>) -> Vec<String> {
    let mut out: Vec<String> = Vec::with_capacity(l.len());
    let mut i = 0;
    while i < l.len() {
        out.push(l[i].clone());
        if l[i].starts_with("NodeCrashed ") {
            let mut j = i + 1;
            while j < l.len() && l[j].starts_with("MessageDropped ") {
                j += 1;
            }
            let mut blk: Vec<String> = l[i + 1..j].to_vec();
            blk.sort();
            out.extend(blk);
            i = j;
        } else {
            i += 1;
        }
    }
    out
}

pub fn c_trace(l: &[LogEntry]) -> String {
    canon_entries(l.iter().map(c_log).collect::<Vec<_>>()).join(";")
}

pub fn c_hentry(h: &HEntry) -> String {
    format!(
        "({}|{}|{})",
        c_ids_u64(&h.key),
        match h.time {
            Some(t) => t.to_string(),
            None => "-".to_string(),
        },
        c_ids_u64(&h.draws)
    )
}

pub fn c_evlog(l: &[EventLogEntry]) -> String {
    l.iter().map(|e| format!("{} {}", bits(e.time), c_pevent(&e.event))).collect::<Vec<_>>().join(";")
}

#[allow(clippy::too_many_arguments)]
pub fn c_pentry(
    name: &str,
    st: &ScriptState,
    outbox: &[Message],
    ptimers: &std::collections::HashMap<String, u64>,
    sent: u64,
    recv: u64,
    evlog: &[EventLogEntry],
) -> String {
    let mut pt: Vec<(u64, u64)> = ptimers.iter().map(|(k, v)| (num(k), *v)).collect();
    pt.sort();
    format!(
        "{{P{} i{} h[{}] o[{}] t[{}] s{} r{} e[{}]}}",
        num(name),
        st.idx,
        st.hist.iter().map(c_hentry).collect::<Vec<_>>().join(""),
        outbox.iter().map(c_msg).collect::<Vec<_>>().join(";"),
        pt.iter().map(|(n, i)| format!("{}:{}", n, i)).collect::<Vec<_>>().join(","),
        sent,
        recv,
        c_evlog(evlog)
    )
}

pub fn c_store(pe: &anysystem::mc::verif::PendingEvents) -> String {
    let mut s = String::new();
    crate::store::dump_store(&mut s, pe);
    s.trim().split('\n').collect::<Vec<_>>().join("/")
}

/// what the model of the code and the reference semantics both have: live, offered (both modes), counter, name map
pub fn c_store_red(pe: &anysystem::mc::verif::PendingEvents) -> String {
    let mut s = String::new();
    crate::store::dump_store(&mut s, pe);
    let keep: Vec<&str> = s
        .trim()
        .split('\n')
        .filter(|l| {
            l.starts_with("LIVE") || l.starts_with("OFF") || l.starts_with("NEXT") || l.starts_with("TMAP")
        })
        .collect();
    keep.join("/")
}

pub fn c_net(n: &anysystem::mc::verif::VerifNetDump) -> String {
    format!(
        "c{} d{} r{} in[{}] out[{}] links[{}] loc[{}] max{}",
        bits(n.rates.0),
        bits(n.rates.1),
        bits(n.rates.2),
        c_names(&n.drop_incoming),
        c_names(&n.drop_outgoing),
        n.disabled_links.iter().map(|(a, b)| format!("{}>{}", num(a), num(b))).collect::<Vec<_>>().join(","),
        n.proc_locations.iter().map(|(a, b)| format!("{}@{}", num(a), num(b))).collect::<Vec<_>>().join(","),
        bits(n.max_delay)
    )
}

pub fn c_nodes(s: &McState) -> String {
    let mut out = String::new();
    for (name, ns) in &s.node_states {
        out.push_str(&format!("|N{} c{} ", num(name), b01(ns.verif_is_crashed())));
        for (pn, pe) in &ns.proc_states {
            out.push_str(&c_pentry(
                pn,
                &script_state(&pe.proc_state),
                &pe.local_outbox,
                &pe.pending_timers,
                pe.sent_message_count,
                pe.received_message_count,
                &pe.event_log,
            ));
        }
    }
    out
}

pub fn c_state_core(s: &McState) -> String {
    format!("D{}{}|S{}|W{}", s.depth, c_nodes(s), c_store(&s.events), c_net(&s.network.verif_dump()))
}

pub fn c_state_red(s: &McState) -> String {
    format!("D{}{}|S{}|W{}", s.depth, c_nodes(s), c_store_red(&s.events), c_net(&s.network.verif_dump()))
}

/// the process-visible projection: per process its state and local outbox (what C04 compares)
pub fn c_state_pv(s: &McState) -> String {
    let mut out = String::new();
    for ns in s.node_states.values() {
        for (pn, pe) in &ns.proc_states {
            let st = script_state(&pe.proc_state);
            out.push_str(&format!(
                "{{P{} i{} h[{}] o[{}]}}",
                num(pn),
                st.idx,
                st.hist.iter().map(c_hentry).collect::<Vec<_>>().join(""),
                pe.local_outbox.iter().map(c_msg).collect::<Vec<_>>().join(";")
            ));
        }
    }
    out
}

/// the projection the checker's state equality looks at
pub fn c_state_eqp(s: &McState) -> String {
    let mut out = String::new();
    for (name, ns) in &s.node_states {
        out.push_str(&format!("|N{} c{} ", num(name), b01(ns.verif_is_crashed())));
        for (pn, pe) in &ns.proc_states {
            let st = script_state(&pe.proc_state);
            out.push_str(&format!(
                "{{P{} i{} h[{}] o[{}]}}",
                num(pn),
                st.idx,
                st.hist.iter().map(c_hentry).collect::<Vec<_>>().join(""),
                pe.local_outbox.iter().map(c_msg).collect::<Vec<_>>().join(";")
            ));
        }
    }
    format!("{}|S{}", out, c_store_red(&s.events))
}

pub fn c_state(s: &McState) -> String {
    format!("{}|T{}", c_state_core(s), c_trace(&s.trace))
}

/// FNV-1a 64
pub fn fnv(s: &str) -> String {
    let mut h: u64 = 0xcbf29ce484222325;
    for b in s.as_bytes() {
        h = (h ^ (*b as u64)).wrapping_mul(0x100000001b3);
    }
    h.to_string()
}
