//! Helpers around the model-checking network / strategy fault alternatives.
use anysystem::mc::strategies::Bfs;
use anysystem::mc::{Strategy, StrategyConfig};
use anysystem::Message;

/// The corruption the model-checking strategy applies (`Strategy::corrupt_message`).
pub fn corrupt_via_strategy(msg: Message) -> Message {
    let s = Bfs::build(StrategyConfig::default());
    s.corrupt_message(msg)
}
