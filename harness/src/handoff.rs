//! HANDOFF scenarios: simulate a prefix, snapshot with ModelChecker::new, run the model checker, continue the
//! simulation. Lines: SIM lines, SNAPSHOT, MC lines (CLOCK/CB/PRED/RUN), CONTINUE, SIM OP lines.
use std::fmt::Write;

use anysystem::mc::ModelChecker;
use anysystem::System;

use crate::canon::*;
use crate::common::*;
use crate::sim::{apply_op, facts, c_simstate, Progs};

pub fn run(sc: &Scenario) -> String {
    run_with(sc, Progs::new(), false)
}

/// `reduced`: the observations avoid the representation of process states (Python twins)
pub fn run_with(sc: &Scenario, progs0: Progs, reduced: bool) -> String {
    let mut out = String::new();
    let mut progs = progs0;
    crate::mc::REDUCED.with(|c| c.set(reduced));
    let mut verbose = false;
    let mut seed = 12345u64;
    let mut sys: Option<System> = None;
    let mut nlog = 0usize;
    let mut phase = 0;
    let mut mc_lines: Vec<String> = vec![];
    // LATEMC: the checker is created at CONTINUE but run only after the rest of the simulation script; the output
    // is assembled in the usual order, so that it can be compared line by line with the run in the usual order
    let late = sc.lines.iter().any(|l| l == "LATEMC");
    let mut deferred: Option<(ModelChecker, Vec<String>, (u64, u64))> = None;
    let mut post = String::new();
    let mut panicked = false;
    for (i, line) in sc.lines.iter().enumerate() {
        let idx = i + 1;
        let mut t = Toks::new(line);
        let kw = t.tok();
        if kw == "SNAPSHOT" {
            phase = 1;
            continue;
        }
        if kw == "LATEMC" || kw == "PYOWN" {
            continue;
        }
        if kw == "RAISE" {
            // the Python twin raises at this invocation of this process (ignored by the Rust twin)
            let p = t.u64();
            let k = t.u64() as i64;
            if progs.python.is_some() {
                progs.raise_at = Some((p, k));
            }
            continue;
        }
        if kw == "CONTINUE" {
            if sys.is_none() {
                sys = Some(System::new(seed));
            }
            let s = sys.as_ref().unwrap();
            // C18: the source processes before the checker copies them
            let src_before: Vec<String> = if reduced { source_states(s) } else { vec![] };
            let r = std::panic::catch_unwind(std::panic::AssertUnwindSafe(|| ModelChecker::new(s)));
            match r {
                Err(_) => {
                    writeln!(out, "SNAPSHOT PANIC").unwrap();
                    return out;
                }
                Ok(mut mc) => {
                    writeln!(out, "SNAPSHOT").unwrap();
                    // implementation-only lines for the C15 monitor: the simulator's pending timers (fire time, now)
                    // and the timers of the snapshot (remaining delay), each in its own order
                    {
                        use anysystem::events::TimerFired;
                        let now = s.time();
                        for e in s.sim().dump_events() {
                            if let Some(t) = e.data.downcast_ref::<TimerFired>() {
                                writeln!(out, "XSIMT {} {} {} {}", num(&t.proc), num(&t.timer), e.time.to_bits(), now.to_bits()).unwrap();
                            }
                        }
                        let st = mc.verif_system().verif_get_state();
                        for (_, ev) in st.events.verif_events() {
                            if let anysystem::mc::McEvent::TimerFired { proc, timer, timer_delay } = ev {
                                writeln!(out, "XSNAPT {} {} {}", num(&proc), num(&timer), timer_delay.into_inner().to_bits()).unwrap();
                            }
                        }
                    }
                    let loc: std::collections::HashMap<String, String> = s.network().proc_locations().clone();
                    let node_of = |p: u64| loc.get(&pname(p)).map(|n| num(n)).unwrap_or(0);
                    let rest: Vec<String> = mc_lines.iter().filter(|l| !l.starts_with("CLOCK")).cloned().collect();
                    if late {
                        deferred = Some((mc, rest, (node_of(0), node_of(1))));
                        phase = 2;
                        continue;
                    }
                    out.push_str(&crate::mc::run_lines(&rest, Some(mc), Some((node_of(0), node_of(1)))));
                    if reduced {
                        // copies made for model checking share nothing with the originals
                        let same = source_states(s) == src_before;
                        writeln!(out, "SRCSTATE {}", if same { "same" } else { "CHANGED" }).unwrap();
                    }
                }
            }
            phase = 2;
            continue;
        }
        if phase == 1 {
            mc_lines.push(line.clone());
            continue;
        }
        if progs.parse_line(kw, &mut t) {
            continue;
        }
        match kw {
            "VERBOSE" => verbose = true,
            "SEED" => seed = t.u64(),
            "DRAWS" => {}
            "OP" => {
                let op = t.tok();
                let out: &mut String = if deferred.is_some() { &mut post } else { &mut out };
                writeln!(out, "OP {} {}", idx, op).unwrap();
                if sys.is_none() {
                    sys = Some(System::new(seed));
                }
                let s = sys.as_mut().unwrap();
                let r = std::panic::catch_unwind(std::panic::AssertUnwindSafe(|| apply_op(s, &progs, op, &mut t)));
                crate::script_proc::CALLS.with(|c| c.borrow_mut().clear());
                match r {
                    Err(_) => {
                        writeln!(out, "PANIC").unwrap();
                        panicked = true;
                        break;
                    }
                    Ok(ret) => {
                        writeln!(out, "{}", ret).unwrap();
                        let tr_len = {
                            let lg = s.logger();
                            let tr = lg.trace();
                            for e in tr.iter().skip(nlog) {
                                writeln!(out, "LOG {}", c_log(e)).unwrap();
                            }
                            tr.len()
                        };
                        nlog = tr_len;
                        if !reduced {
                            let st = c_simstate(s);
                            if verbose {
                                writeln!(out, "STATE {}", st).unwrap();
                            } else {
                                writeln!(out, "STATE {}", fnv(&st)).unwrap();
                            }
                        }
                        out.push_str(&facts(s));
                    }
                }
            }
            s => panic!("bad HANDOFF line {}", s),
        }
    }
    if let Some((mc, rest, nodes)) = deferred.take() {
        let s = sys.as_ref().unwrap();
        let src_before: Vec<String> = if reduced { source_states(s) } else { vec![] };
        out.push_str(&crate::mc::run_lines(&rest, Some(mc), Some(nodes)));
        if reduced {
            let same = source_states(s) == src_before;
            writeln!(out, "SRCSTATE {}", if same { "same" } else { "CHANGED" }).unwrap();
        }
        out.push_str(&post);
    }
    if panicked {
        crate::mc::REDUCED.with(|c| c.set(false));
        return out;
    }
    if reduced {
        if let Some(s) = sys.as_ref() {
            // save / restore round trip of every process
            let mut ok = true;
            let mut names = s.process_names();
            names.sort();
            for p in names {
                let nn = s.proc_node_name(&p);
                let mut node = s.get_mut_node(&nn).unwrap();
                let st1 = node.get_process(&p).map(|x| format!("{:?}", x.state().unwrap()));
                if let Some(pr) = node.get_process(&p) {
                    let stv = pr.state().unwrap();
                    node.set_process_state(&p, stv);
                }
                let st2 = node.get_process(&p).map(|x| format!("{:?}", x.state().unwrap()));
                if st1 != st2 {
                    ok = false;
                }
            }
            writeln!(out, "ROUNDTRIP {}", if ok { "same" } else { "CHANGED" }).unwrap();
        }
    }
    crate::mc::REDUCED.with(|c| c.set(false));
    out
}

fn source_states(s: &System) -> Vec<String> {
    let mut names = s.process_names();
    names.sort();
    names
        .iter()
        .map(|p| {
            let nn = s.proc_node_name(p);
            let node = s.get_node(&nn).unwrap();
            node.get_process(p).map(|x| format!("{:?}", x.state().unwrap())).unwrap_or_default()
        })
        .collect()
}

/// PYTWIN scenarios: the same HANDOFF script run with Rust twins (issuing grouped by kind) and with Python twins
pub fn run_twins(sc: &Scenario) -> String {
    std::env::set_var("PYTHONPATH", "/repo/python");
    let mut out = String::new();
    let mut pr = Progs::new();
    pr.grouped = true;
    out.push_str("TWIN rust\n");
    out.push_str(&run_with(sc, pr, true));
    let mut pp = Progs::new();
    let path = concat!(env!("CARGO_MANIFEST_DIR"), "/py/script_proc.py");
    let class = if sc.lines.iter().any(|l| l == "PYOWN") { "ScriptProcOwn" } else { "ScriptProc" };
    pp.python = Some(std::rc::Rc::new(anysystem::python::PyProcessFactory::new(path, class)));
    out.push_str("TWIN python\n");
    let r = std::panic::catch_unwind(std::panic::AssertUnwindSafe(|| run_with(sc, pp, true)));
    match r {
        Ok(s) => out.push_str(&s),
        Err(_) => out.push_str("TWINPANIC\n"),
    }
    out
}
