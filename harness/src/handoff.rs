//! HANDOFF scenarios: simulate a prefix, snapshot with ModelChecker::new, run the model checker, continue the
//! simulation. Lines: SIM lines, SNAPSHOT, MC lines (CLOCK/CB/PRED/RUN), CONTINUE, SIM OP lines.
use std::fmt::Write;

use anysystem::mc::ModelChecker;
use anysystem::System;

use crate::canon::*;
use crate::common::*;
use crate::sim::{apply_op, facts, c_simstate, Progs};

pub fn run(sc: &Scenario) -> String {
    let mut out = String::new();
    let mut progs = Progs::new();
    let mut verbose = false;
    let mut seed = 12345u64;
    let mut sys: Option<System> = None;
    let mut nlog = 0usize;
    let mut phase = 0;
    let mut mc_lines: Vec<String> = vec![];
    for (i, line) in sc.lines.iter().enumerate() {
        let idx = i + 1;
        let mut t = Toks::new(line);
        let kw = t.tok();
        if kw == "SNAPSHOT" {
            phase = 1;
            continue;
        }
        if kw == "CONTINUE" {
            if sys.is_none() {
                sys = Some(System::new(seed));
            }
            let s = sys.as_ref().unwrap();
            let r = std::panic::catch_unwind(std::panic::AssertUnwindSafe(|| ModelChecker::new(s)));
            match r {
                Err(_) => {
                    writeln!(out, "SNAPSHOT PANIC").unwrap();
                    return out;
                }
                Ok(mc) => {
                    writeln!(out, "SNAPSHOT").unwrap();
                    let loc: std::collections::HashMap<String, String> = s.network().proc_locations().clone();
                    let node_of = |p: u64| loc.get(&pname(p)).map(|n| num(n)).unwrap_or(0);
                    let rest: Vec<String> = mc_lines.iter().filter(|l| !l.starts_with("CLOCK")).cloned().collect();
                    out.push_str(&crate::mc::run_lines(&rest, Some(mc), Some((node_of(0), node_of(1)))));
                }
            }
            phase = 2;
            continue;
        }
        if phase == 1 {
            mc_lines.push(line.clone());
            continue;
        }
        if progs.parse_line(kw, &mut t) {
            continue;
        }
        match kw {
            "VERBOSE" => verbose = true,
            "SEED" => seed = t.u64(),
            "DRAWS" => {}
            "OP" => {
                let op = t.tok();
                writeln!(out, "OP {} {}", idx, op).unwrap();
                if sys.is_none() {
                    sys = Some(System::new(seed));
                }
                let s = sys.as_mut().unwrap();
                let r = std::panic::catch_unwind(std::panic::AssertUnwindSafe(|| apply_op(s, &progs, op, &mut t)));
                match r {
                    Err(_) => {
                        writeln!(out, "PANIC").unwrap();
                        return out;
                    }
                    Ok(ret) => {
                        writeln!(out, "{}", ret).unwrap();
                        let tr_len = {
                            let lg = s.logger();
                            let tr = lg.trace();
                            for e in tr.iter().skip(nlog) {
                                writeln!(out, "LOG {}", c_log(e)).unwrap();
                            }
                            tr.len()
                        };
                        nlog = tr_len;
                        let st = c_simstate(s);
                        if verbose {
                            writeln!(out, "STATE {}", st).unwrap();
                        } else {
                            writeln!(out, "STATE {}", fnv(&st)).unwrap();
                        }
                        out.push_str(&facts(s));
                    }
                }
            }
            s => panic!("bad HANDOFF line {}", s),
        }
    }
    out
}
