//! STORE scenarios: drive the real `PendingEvents` through the cfg(anysystem_verif) hooks.
use std::fmt::Write;

use anysystem::mc::network::DeliveryOptions;
use anysystem::mc::verif::PendingEvents;
use anysystem::mc::{EventOrderingMode, McEvent, McTime};

use crate::common::*;

pub fn opts_of(t: &mut Toks) -> DeliveryOptions {
    match t.tok() {
        "NF" => DeliveryOptions::NoFailures(McTime::from(t.f64())),
        "PF" => {
            let d = t.bool();
            let k = t.u64() as u32;
            let c = t.bool();
            DeliveryOptions::PossibleFailures { can_be_dropped: d, max_dupl_count: k, can_be_corrupted: c }
        }
        s => panic!("bad opts {}", s),
    }
}

pub fn opts_out(o: &DeliveryOptions) -> String {
    match o {
        DeliveryOptions::NoFailures(d) => format!("NF {}", d.0.to_bits()),
        DeliveryOptions::PossibleFailures { can_be_dropped, max_dupl_count, can_be_corrupted } => {
            format!("PF {} {} {}", b01(*can_be_dropped), max_dupl_count, b01(*can_be_corrupted))
        }
    }
}

pub fn event_out(e: &McEvent) -> String {
    match e {
        McEvent::MessageReceived { msg, src, dst, options } => {
            format!("M {} {} {} {}", msg_out(msg), num(src), num(dst), opts_out(options))
        }
        McEvent::TimerFired { proc, timer, timer_delay } => {
            format!("T {} {} {}", num(proc), num(timer), timer_delay.0.to_bits())
        }
        _ => "OTHER".to_string(),
    }
}

pub fn dump_store(out: &mut String, pe: &PendingEvents) {
    let live: Vec<String> = pe.verif_events().iter().map(|(i, e)| format!("{} {}", i, event_out(e))).collect();
    writeln!(out, "LIVE {}", live.join(" ; ")).unwrap();
    let off = std::panic::catch_unwind(std::panic::AssertUnwindSafe(|| {
        ids_out(pe.verif_available_events(&EventOrderingMode::Normal))
    }))
    .unwrap_or_else(|_| "PANIC".to_string());
    writeln!(out, "OFF {}", off).unwrap();
    let offmf = std::panic::catch_unwind(std::panic::AssertUnwindSafe(|| {
        ids_out(pe.verif_available_events(&EventOrderingMode::MessagesFirst))
    }))
    .unwrap_or_else(|_| "PANIC".to_string());
    writeln!(out, "OFFMF {}", offmf).unwrap();
    let empty = std::panic::catch_unwind(std::panic::AssertUnwindSafe(|| b01(pe.is_empty()).to_string()))
        .unwrap_or_else(|_| "PANIC".to_string());
    writeln!(out, "EMPTY {}", empty).unwrap();
    writeln!(out, "NEXT {}", pe.verif_id_counter()).unwrap();
    writeln!(out, "RAWAVAIL {}", ids_out(pe.verif_raw_available())).unwrap();
    let tmap: Vec<String> =
        pe.verif_timer_mapping().iter().map(|((p, n), i)| format!("{} {} {}", num(p), num(n), i)).collect();
    writeln!(out, "TMAP {}", tmap.join(" ; ")).unwrap();
    let r = pe.verif_resolver();
    let rt: Vec<String> = r
        .verif_timers()
        .iter()
        .map(|(i, p, d, b)| format!("{} {} {} [{}]", i, num(p), d.0.to_bits(), ids_out(b.iter().cloned())))
        .collect();
    writeln!(out, "RTIMERS {}", rt.join(" ; ")).unwrap();
    let mut rm: Vec<String> = r
        .verif_messages()
        .iter()
        .map(|((m, s, d), q)| format!("{} {} {} [{}]", msg_out(m), num(s), num(d), ids_out(q.iter().cloned())))
        .collect();
    rm.sort();
    writeln!(out, "RMSGS {}", rm.join(" ; ")).unwrap();
    let rp: Vec<String> =
        r.verif_proc_timers().iter().map(|(p, l)| format!("{} [{}]", num(p), ids_out(l.iter().cloned()))).collect();
    writeln!(out, "RPTIMERS {}", rp.join(" ; ")).unwrap();
}

fn nth_mod<T: Clone>(l: &[T], k: usize) -> Option<T> {
    if l.is_empty() {
        None
    } else {
        Some(l[k % l.len()].clone())
    }
}

pub fn run(sc: &Scenario) -> String {
    let mut out = String::new();
    let mut pe = PendingEvents::new();
    let mut last_popped: Option<McEvent> = None;
    for (idx, line) in sc.lines.iter().enumerate() {
        let mut t = Toks::new(line);
        let kw = t.tok();
        writeln!(out, "OP {} {}", idx, kw).unwrap();
        let mut o = String::new();
        let res = std::panic::catch_unwind(std::panic::AssertUnwindSafe(|| {
            let offered: Vec<usize> = if matches!(kw, "POPOFF" | "DUP" | "CORRUPT") {
                pe.verif_available_events(&EventOrderingMode::Normal).into_iter().collect()
            } else {
                vec![]
            };
            match kw {
                "PUSHMSG" => {
                    let msg = t.msg();
                    let src = pname(t.u64());
                    let dst = pname(t.u64());
                    let options = opts_of(&mut t);
                    let e = McEvent::MessageReceived { msg, src, dst, options };
                    writeln!(o, "RAW PUSH {}", event_out(&e)).unwrap();
                    let id = pe.push(e);
                    writeln!(o, "RET ID {}", id).unwrap();
                }
                "PUSHTIMER" => {
                    let proc = pname(t.u64());
                    let timer = tname(t.u64());
                    let timer_delay = McTime::from(t.f64());
                    let e = McEvent::TimerFired { proc, timer, timer_delay };
                    writeln!(o, "RAW PUSH {}", event_out(&e)).unwrap();
                    let id = pe.push(e);
                    writeln!(o, "RET ID {}", id).unwrap();
                }
                "POPOFF" | "POPLIVE" => {
                    let k = t.usize();
                    let cands: Vec<usize> = if kw == "POPOFF" {
                        offered.clone()
                    } else {
                        pe.verif_events().iter().map(|(i, _)| *i).collect()
                    };
                    match nth_mod(&cands, k) {
                        None => writeln!(o, "SKIP").unwrap(),
                        Some(i) => {
                            writeln!(o, "SEL {}", i).unwrap();
                            writeln!(o, "RAW POP {}", i).unwrap();
                            let e = pe.pop(i);
                            writeln!(o, "RET EV {}", event_out(&e)).unwrap();
                            last_popped = Some(e);
                        }
                    }
                }
                "DUP" => {
                    let k = t.usize();
                    let sel = nth_mod(&offered, k).and_then(|i| match pe.get(i) {
                        Some(McEvent::MessageReceived {
                            options: DeliveryOptions::PossibleFailures { max_dupl_count, .. },
                            ..
                        }) if *max_dupl_count > 0 => Some(i),
                        _ => None,
                    });
                    match sel {
                        None => writeln!(o, "SKIP").unwrap(),
                        Some(i) => {
                            writeln!(o, "SEL {}", i).unwrap();
                            // what Strategy::duplicate_event + add_event do
                            writeln!(o, "RAW POP {}", i).unwrap();
                            let mut e = pe.pop(i);
                            writeln!(o, "RET EV {}", event_out(&e)).unwrap();
                            last_popped = Some(e.clone());
                            let d = e.duplicate().unwrap();
                            writeln!(o, "RAW PUSHFIXED {} {}", i, event_out(&d)).unwrap();
                            let id = pe.verif_push_with_fixed_id(d, i);
                            writeln!(o, "RET ID {}", id).unwrap();
                            e.disable_duplications();
                            writeln!(o, "RAW PUSH {}", event_out(&e)).unwrap();
                            let id2 = pe.push(e);
                            writeln!(o, "RET ID {}", id2).unwrap();
                        }
                    }
                }
                "CORRUPT" => {
                    let k = t.usize();
                    let sel = nth_mod(&offered, k).and_then(|i| match pe.get(i) {
                        Some(McEvent::MessageReceived {
                            options: DeliveryOptions::PossibleFailures { can_be_corrupted: true, .. },
                            ..
                        }) => Some(i),
                        _ => None,
                    });
                    match sel {
                        None => writeln!(o, "SKIP").unwrap(),
                        Some(i) => {
                            writeln!(o, "SEL {}", i).unwrap();
                            writeln!(o, "RAW POP {}", i).unwrap();
                            let e = pe.pop(i);
                            writeln!(o, "RET EV {}", event_out(&e)).unwrap();
                            last_popped = Some(e.clone());
                            if let McEvent::MessageReceived { msg, src, dst, mut options } = e {
                                if let DeliveryOptions::PossibleFailures { can_be_corrupted, .. } = &mut options {
                                    *can_be_corrupted = false;
                                }
                                let corrupted = crate::mcnet::corrupt_via_strategy(msg);
                                let ce = McEvent::MessageReceived { msg: corrupted, src, dst, options };
                                writeln!(o, "RAW PUSHFIXED {} {}", i, event_out(&ce)).unwrap();
                                let id = pe.verif_push_with_fixed_id(ce, i);
                                writeln!(o, "RET ID {}", id).unwrap();
                            }
                        }
                    }
                }
                "REINSERT" => {
                    let i = t.usize();
                    match &last_popped {
                        Some(e @ McEvent::MessageReceived { .. }) => {
                            writeln!(o, "RAW PUSHFIXED {} {}", i, event_out(e)).unwrap();
                            let id = pe.verif_push_with_fixed_id(e.clone(), i);
                            writeln!(o, "RET ID {}", id).unwrap();
                        }
                        _ => writeln!(o, "SKIP").unwrap(),
                    }
                }
                "CANCELTIMER" => {
                    let p = pname(t.u64());
                    let n = tname(t.u64());
                    writeln!(o, "RAW CANCELTIMER {} {}", num(&p), num(&n)).unwrap();
                    pe.cancel_timer(p, n);
                    writeln!(o, "RET UNIT").unwrap();
                }
                "CANCELPROC" => {
                    let p = pname(t.u64());
                    writeln!(o, "RAW CANCELPROC {}", num(&p)).unwrap();
                    let dropped = pe.verif_cancel_proc_events(&p);
                    let l: Vec<String> = dropped
                        .iter()
                        .map(|e| match e {
                            McEvent::MessageDropped { msg, src, dst, receive_event_id } => format!(
                                "{} DROP {} {} {}",
                                receive_event_id.unwrap(),
                                msg_out(msg),
                                num(src),
                                num(dst)
                            ),
                            _ => "OTHER".to_string(),
                        })
                        .collect();
                    writeln!(o, "RET DROPPED {}", l.join(" ; ")).unwrap();
                }
                "RAWPOP" => {
                    let i = t.usize();
                    writeln!(o, "RAW POP {}", i).unwrap();
                    let e = pe.pop(i);
                    writeln!(o, "RET EV {}", event_out(&e)).unwrap();
                    last_popped = Some(e);
                }
                s => panic!("bad STORE op {}", s),
            }
        }));
        match res {
            Ok(()) => out.push_str(&o),
            Err(_) => {
                // keep the raw operations issued so far (the last one is the one that panicked)
                for l in o.lines().filter(|l| l.starts_with("RAW ")) {
                    out.push_str(l);
                    out.push('\n');
                }
                out.push_str("PANIC\n");
                return out;
            }
        }
        dump_store(&mut out, &pe);
    }
    out
}
