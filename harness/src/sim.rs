//! SIM scenarios: drive the real System through its public API.
use std::collections::HashMap;
use std::fmt::Write;

use anysystem::events::{MessageReceived, TimerFired};
use anysystem::System;

use crate::canon::*;
use crate::common::*;
use crate::script_proc::*;

pub fn sim_netop(sys: &mut System, t: &mut Toks) {
    let mut net = sys.network();
    match t.tok() {
        "DELAY" => net.set_delay(t.f64()),
        "DELAYS" => {
            let a = t.f64();
            let b = t.f64();
            net.set_delays(a, b)
        }
        "DROPRATE" => net.set_drop_rate(t.f64()),
        "DUPLRATE" => net.set_dupl_rate(t.f64()),
        "CORRUPTRATE" => net.set_corrupt_rate(t.f64()),
        "DROPIN" => net.drop_incoming(&nname(t.u64())),
        "PASSIN" => net.pass_incoming(&nname(t.u64())),
        "DROPOUT" => net.drop_outgoing(&nname(t.u64())),
        "PASSOUT" => net.pass_outgoing(&nname(t.u64())),
        "DISCONNECT" => net.disconnect_node(&nname(t.u64())),
        "CONNECT" => net.connect_node(&nname(t.u64())),
        "DISABLELINK" => {
            let a = nname(t.u64());
            let b = nname(t.u64());
            net.disable_link(&a, &b)
        }
        "ENABLELINK" => {
            let a = nname(t.u64());
            let b = nname(t.u64());
            net.enable_link(&a, &b)
        }
        "PARTITION" => {
            let k = t.usize();
            let g1: Vec<String> = (0..k).map(|_| nname(t.u64())).collect();
            let k2 = t.usize();
            let g2: Vec<String> = (0..k2).map(|_| nname(t.u64())).collect();
            let r1: Vec<&str> = g1.iter().map(|x| x.as_str()).collect();
            let r2: Vec<&str> = g2.iter().map(|x| x.as_str()).collect();
            net.make_partition(&r1, &r2)
        }
        "RESET" => net.reset(),
        s => panic!("bad snetop {}", s),
    }
}

fn c_qevent(e: &simcore::Event) -> String {
    let data = if let Some(m) = e.data.downcast_ref::<MessageReceived>() {
        format!(
            "M {} {} {} {} {} {}",
            m.id,
            c_msg(&m.msg),
            num(&m.src),
            num(&m.src_node),
            num(&m.dst),
            num(&m.dst_node)
        )
    } else if let Some(t) = e.data.downcast_ref::<TimerFired>() {
        format!("T {} {}", num(&t.proc), num(&t.timer))
    } else {
        "OTHER".to_string()
    };
    format!("{} {} {} {} {}", e.id, e.time.to_bits(), e.src, e.dst, data)
}

/// the observable part of the simulator state, through the public API only
pub fn c_simstate(sys: &System) -> String {
    let mut s = String::new();
    write!(s, "K{}|Q", sys.time().to_bits()).unwrap();
    let q: Vec<String> = sys.sim().dump_events().iter().map(c_qevent).collect();
    write!(s, "{}|C{}|", q.join(";"), sys.sim().event_count()).unwrap();
    let mut nodes = sys.nodes();
    nodes.sort();
    for n in &nodes {
        let node = sys.get_node(n).unwrap();
        write!(s, "|N{} id{} c{} ", num(n), node.id, b01(node.is_crashed())).unwrap();
        let mut procs = node.process_names();
        procs.sort();
        for p in &procs {
            let st = script_state(&node.get_process(p).unwrap().state().unwrap());
            write!(
                s,
                "{{P{} i{} h[{}] o[{}] s{} r{} e[{}]}}",
                num(p),
                st.idx,
                st.hist.iter().map(c_hentry).collect::<Vec<_>>().join(""),
                node.local_outbox(p).iter().map(c_msg).collect::<Vec<_>>().join(";"),
                node.sent_message_count(p),
                node.received_message_count(p),
                c_evlog(&node.event_log(p))
            )
            .unwrap();
        }
    }
    {
        let net = sys.network();
        let mut di: Vec<u64> = net.get_drop_incoming().iter().map(|x| num(x)).collect();
        di.sort();
        let mut dout: Vec<u64> = net.get_drop_outgoing().iter().map(|x| num(x)).collect();
        dout.sort();
        let mut links: Vec<(u64, u64)> = net.disabled_links().iter().map(|(a, b)| (num(a), num(b))).collect();
        links.sort();
        let mut loc: Vec<(u64, u64)> = net.proc_locations().iter().map(|(a, b)| (num(a), num(b))).collect();
        loc.sort();
        let j = |v: &Vec<u64>| v.iter().map(|x| x.to_string()).collect::<Vec<_>>().join(",");
        write!(
            s,
            "|Wmax{} r{} d{} c{} in[{}] out[{}] links[{}] loc[{}] nc{} tr{}",
            net.max_delay().to_bits(),
            net.drop_rate().to_bits(),
            net.dupl_rate().to_bits(),
            net.corrupt_rate().to_bits(),
            j(&di),
            j(&dout),
            links.iter().map(|(a, b)| format!("{}>{}", a, b)).collect::<Vec<_>>().join(","),
            loc.iter().map(|(a, b)| format!("{}@{}", a, b)).collect::<Vec<_>>().join(","),
            net.network_message_count(),
            net.traffic()
        )
        .unwrap();
    }
    let mut pn: Vec<u64> = sys.process_names().iter().map(|x| num(x)).collect();
    pn.sort();
    write!(s, "|PN[{}]", pn.iter().map(|x| x.to_string()).collect::<Vec<_>>().join(",")).unwrap();
    s
}

/// plain facts for the monitors: clock, live queue size and earliest live time; counters
pub fn facts(sys: &System) -> String {
    let mut out = String::new();
    let live = sys.sim().dump_events();
    writeln!(
        out,
        "Q {} {} {}",
        sys.time().to_bits(),
        live.len(),
        live.first().map(|e| e.time.to_bits().to_string()).unwrap_or_else(|| "-".to_string())
    )
    .unwrap();
    let mut nodes = sys.nodes();
    nodes.sort();
    let mut cnt = vec![];
    for n in &nodes {
        let node = sys.get_node(n).unwrap();
        let mut procs = node.process_names();
        procs.sort();
        for p in &procs {
            cnt.push(format!(
                "{}:{}:{}:{}:{}",
                num(p),
                node.sent_message_count(p),
                node.received_message_count(p),
                node.local_outbox(p).len(),
                node.event_log(p).len()
            ));
        }
    }
    writeln!(out, "CNT {}", cnt.join(" ")).unwrap();
    {
        let net = sys.network();
        writeln!(out, "NC {} {}", net.network_message_count(), net.traffic()).unwrap();
    }
    if crate::mc::REDUCED.with(|c| c.get()) {
        return out;
    }
    // the process-visible projection (C04)
    let mut pv = String::new();
    for n in &nodes {
        let node = sys.get_node(n).unwrap();
        let mut procs = node.process_names();
        procs.sort();
        for p in &procs {
            let st = script_state(&node.get_process(p).unwrap().state().unwrap());
            pv.push_str(&format!(
                "{{P{} i{} h[{}] o[{}]}}",
                num(p),
                st.idx,
                st.hist.iter().map(c_hentry).collect::<Vec<_>>().join(""),
                node.local_outbox(p).iter().map(c_msg).collect::<Vec<_>>().join(";")
            ));
        }
    }
    writeln!(out, "PV {}", fnv(&pv)).unwrap();
    out
}

pub struct Progs {
    pub defs: HashMap<u64, (u64, u64, usize)>,
    pub rows: HashMap<u64, Vec<Vec<Act>>>,
    /// build Python twins (harness/py/script_proc.py) instead of Rust ScriptProcs
    pub python: Option<std::rc::Rc<anysystem::python::PyProcessFactory>>,
    /// Rust twin issues each row grouped by kind (the order the Python bridge relays)
    pub grouped: bool,
    /// (process, invocation number) at which the Python twin raises an exception
    pub raise_at: Option<(u64, i64)>,
}

impl Progs {
    pub fn new() -> Self {
        Progs { defs: HashMap::new(), rows: HashMap::new(), python: None, grouped: false, raise_at: None }
    }
    pub fn parse_line(&mut self, kw: &str, t: &mut Toks) -> bool {
        match kw {
            "PROG" => {
                let p = t.u64();
                let cap = t.u64();
                let rt = t.u64();
                let nd = t.usize();
                self.defs.insert(p, (cap, rt, nd));
            }
            "ROW" => {
                let p = t.u64();
                let k = t.usize();
                let acts: Vec<Act> = (0..k).map(|_| act_of(t)).collect();
                self.rows.entry(p).or_default().push(acts);
            }
            _ => return false,
        }
        true
    }
    pub fn make(&self, p: u64) -> Box<dyn anysystem::Process> {
        let (cap, rt, nd) = self.defs.get(&p).cloned().unwrap_or((0, 0, 0));
        let rows = self.rows.get(&p).cloned().unwrap_or_default();
        match &self.python {
            Some(f) => {
                let ra = match self.raise_at {
                    Some((q, k)) if q == p => k,
                    _ => -1,
                };
                Box::new(f.build((spec_json(cap, &rows, rt, ra),), 1))
            }
            None => {
                let mut sp = ScriptProc::new(cap, rows, if self.grouped { rt | 4 } else { rt }, nd);
                sp.me = Some(p);
                Box::new(sp)
            }
        }
    }
}

/// applies one `OP ...` line; returns the RET text
pub fn apply_op(sys: &mut System, progs: &Progs, kw: &str, t: &mut Toks) -> String {
    let msgs = |l: Vec<anysystem::Message>| l.iter().map(c_msg).collect::<Vec<_>>().join(";");
    match kw {
        "ADDNODE" => {
            sys.add_node(&nname(t.u64()));
            "RET UNIT".to_string()
        }
        "ADDPROC" => {
            let p = t.u64();
            let n = t.u64();
            sys.add_process(&pname(p), progs.make(p), &nname(n));
            "RET UNIT".to_string()
        }
        "SKEW" => {
            let n = t.u64();
            let s = t.f64();
            sys.set_node_clock_skew(&nname(n), s);
            "RET UNIT".to_string()
        }
        "NET" => {
            sim_netop(sys, t);
            "RET UNIT".to_string()
        }
        "LOCAL" => {
            let p = t.u64();
            let m = t.msg();
            sys.send_local_message(&pname(p), m);
            "RET UNIT".to_string()
        }
        "READ" => format!("RET MSGS {}", msgs(sys.read_local_messages(&pname(t.u64())))),
        "CRASH" => {
            sys.crash_node(&nname(t.u64()));
            "RET UNIT".to_string()
        }
        "RECOVER" => {
            sys.recover_node(&nname(t.u64()));
            "RET UNIT".to_string()
        }
        "STEP" => format!("RET BOOL {}", b01(sys.step())),
        "STEPS" => format!("RET BOOL {}", b01(sys.steps(t.u64()))),
        "UNTILNOEVENTS" => {
            sys.step_until_no_events();
            "RET UNIT".to_string()
        }
        "DURATION" => format!("RET BOOL {}", b01(sys.step_for_duration(t.f64()))),
        "UNTILLOCAL" => match sys.step_until_local_message(&pname(t.u64())) {
            Ok(l) => format!("RET OK {}", msgs(l)),
            Err(_) => "RET ERR".to_string(),
        },
        "UNTILLOCALMAX" => {
            let p = t.u64();
            let k = t.u64() as u32;
            match sys.step_until_local_message_max_steps(&pname(p), k) {
                Ok(l) => format!("RET OK {}", msgs(l)),
                Err(_) => "RET ERR".to_string(),
            }
        }
        "UNTILLOCALTIMEOUT" => {
            let p = t.u64();
            let d = t.f64();
            match sys.step_until_local_message_timeout(&pname(p), d) {
                Ok(l) => format!("RET OK {}", msgs(l)),
                Err(_) => "RET ERR".to_string(),
            }
        }
        s => panic!("bad SIM op {}", s),
    }
}

pub fn run(sc: &Scenario) -> String {
    let mut out = String::new();
    let mut progs = Progs::new();
    let mut verbose = false;
    let mut seed = 12345u64;
    let mut sys: Option<System> = None;
    let mut nlog = 0usize;
    let mut evseen: std::collections::HashMap<String, usize> = std::collections::HashMap::new();
    for (idx, line) in sc.lines.iter().enumerate() {
        let mut t = Toks::new(line);
        let kw = t.tok();
        if progs.parse_line(kw, &mut t) {
            continue;
        }
        match kw {
            "VERBOSE" => verbose = true,
            "SEED" => seed = t.u64(),
            "DRAWS" => {}
            "OP" => {
                let op = t.tok();
                writeln!(out, "OP {} {}", idx, op).unwrap();
                if sys.is_none() {
                    // ASV_LOGFILE: the same script with a system that also logs to a file (System::with_log_file): the
                    // in-memory trace must be the same apart from the ProcessStateUpdated entries (C17)
                    sys = Some(match std::env::var("ASV_LOGFILE") {
                        Ok(dir) => {
                            let p = std::path::Path::new(&dir).join(format!("simlog-{}.jsonl", std::process::id()));
                            System::with_log_file(seed, &p)
                        }
                        Err(_) => System::new(seed),
                    });
                }
                let s = sys.as_mut().unwrap();
                crate::script_proc::CALLS.with(|c| c.borrow_mut().clear());
                let r = std::panic::catch_unwind(std::panic::AssertUnwindSafe(|| apply_op(s, &progs, op, &mut t)));
                match r {
                    Err(_) => {
                        writeln!(out, "PANIC").unwrap();
                        return out;
                    }
                    Ok(ret) => {
                        writeln!(out, "{}", ret).unwrap();
                        // new entries of the per-process event logs (X lines: implementation only, for the C17 monitor)
                        {
                            let mut nodes = s.nodes();
                            nodes.sort();
                            for n in &nodes {
                                let node = s.get_node(n).unwrap();
                                let mut procs = node.process_names();
                                procs.sort();
                                for p in &procs {
                                    let log = node.event_log(p);
                                    let seen = evseen.entry(p.clone()).or_insert(0usize);
                                    if log.len() < *seen {
                                        *seen = 0;
                                    }
                                    for e in log.iter().skip(*seen) {
                                        writeln!(out, "XEV {} {} {}", crate::common::num(p), e.time.to_bits(), crate::canon::c_pevent(&e.event)).unwrap();
                                    }
                                    *seen = log.len();
                                }
                            }
                        }
                        // API calls issued by the handlers during this call (not compared with the model: X lines)
                        crate::script_proc::CALLS.with(|c| {
                            for l in c.borrow_mut().drain(..) {
                                writeln!(out, "{}", l).unwrap();
                            }
                        });
                        let tr_len = {
                            let lg = s.logger();
                            let tr = lg.trace();
                            for e in tr.iter().skip(nlog) {
                                writeln!(out, "LOG {}", c_log(e)).unwrap();
                            }
                            tr.len()
                        };
                        nlog = tr_len;
                        let st = c_simstate(s);
                        if verbose {
                            writeln!(out, "STATE {}", st).unwrap();
                        } else {
                            writeln!(out, "STATE {}", fnv(&st)).unwrap();
                        }
                        out.push_str(&facts(s));
                    }
                }
            }
            s => panic!("bad SIM line {}", s),
        }
    }
    out
}

/// `harness draws <seed> <n>`: the first n values of the simulation's random stream, as bit patterns
pub fn draws(seed: u64, n: usize) -> String {
    use rand::{Rng, SeedableRng};
    let mut r = rand_pcg::Pcg64::seed_from_u64(seed);
    (0..n).map(|_| r.gen_range(0.0..1.0f64).to_bits().to_string()).collect::<Vec<_>>().join(" ")
}
