//! The table-driven process of DESIGN Appendix A.1 (Rust twin of coq/theories/Model/Script.v).
use std::rc::Rc;

use anysystem::{Context, Message, Process, ProcessState};

use crate::common::*;

#[derive(Clone, Debug, Hash, PartialEq, Eq)]
pub struct HEntry {
    pub key: Vec<u64>,
    pub time: Option<u64>,
    pub draws: Vec<u64>,
}

#[derive(Clone, Debug, Hash, PartialEq, Eq, Default)]
pub struct ScriptState {
    pub idx: u64,
    pub hist: Vec<HEntry>,
    /// the timer names the process itself believes to be pending, from the calls it made (set / set_once / cancel) and
    /// the firings it saw; a function of `hist` (so state equality is unchanged); not tracked by stateless processes.
    /// Compared with the framework's bookkeeping on every model-checked state (C07).
    pub ptimers: std::collections::BTreeSet<u64>,
    pub tracks: bool,
}

#[derive(Clone, Debug)]
pub enum Act {
    Send { dst: u64, msg: Message },
    Local { msg: Message },
    Timer { name: u64, delay: f64, once: bool },
    Cancel { name: u64 },
}

#[derive(Clone)]
pub struct ScriptProc {
    pub cap: u64,
    pub rows: Vec<Vec<Act>>,
    pub rectime: bool,
    pub ndraws: usize,
    pub stateless: bool,
    /// issue each row grouped by kind (sends, local sends, timer operations): the order in which the Python
    /// bridge relays the actions of a handler (C18)
    pub grouped: bool,
    /// numeric name of the process when the harness wants the API calls of its handlers logged (SIM scenarios)
    pub me: Option<u64>,
    pub st: ScriptState,
}

thread_local! {
    /// what the handlers asked the framework to do, in call order: "XINV p" per handler invocation, then one
    /// "XCALL p <op> ..." per timer API call.  Independent of Context: the C07 monitor compares what was requested
    /// with what the trace shows happened.
    pub static CALLS: std::cell::RefCell<Vec<String>> = std::cell::RefCell::new(Vec::new());
}

pub fn act_of(t: &mut Toks) -> Act {
    match t.tok() {
        "S" => {
            let dst = t.u64();
            let msg = t.msg();
            Act::Send { dst, msg }
        }
        "L" => Act::Local { msg: t.msg() },
        "T" => {
            let name = t.u64();
            let delay = t.f64();
            let once = t.bool();
            Act::Timer { name, delay, once }
        }
        "C" => Act::Cancel { name: t.u64() },
        s => panic!("bad action {}", s),
    }
}

const KEY_SEP: u64 = 256;

impl ScriptProc {
    pub fn new(cap: u64, rows: Vec<Vec<Act>>, flags: u64, ndraws: usize) -> Self {
        let rows = if rows.is_empty() { vec![vec![]] } else { rows };
        ScriptProc {
            cap,
            rows,
            rectime: flags & 1 != 0,
            ndraws,
            stateless: flags & 2 != 0,
            grouped: flags & 4 != 0,
            me: None,
            st: ScriptState::default(),
        }
    }

    fn handle(&mut self, key: Vec<u64>, ctx: &mut Context) {
        if let Some(p) = self.me {
            CALLS.with(|c| c.borrow_mut().push(format!("XINV {}", p)));
        }
        let mut draws = Vec::new();
        for _ in 0..self.ndraws {
            draws.push(ctx.rand().to_bits());
        }
        let time = if self.rectime { Some(ctx.time().to_bits()) } else { None };
        if !self.stateless {
            self.st.hist.push(HEntry { key: key.clone(), time, draws });
            self.st.tracks = true;
            if key.len() == 2 && key[0] == 3 {
                self.st.ptimers.remove(&key[1]);      // a firing frees the name before the handler acts
            }
        }
        if self.stateless || self.st.idx < self.cap {
            let mut h: u64 = if self.stateless { 0 } else { (self.st.idx * 31) % (1u64 << 32) };
            for c in &key {
                h = (h * 131 + c) % (1u64 << 32);
            }
            let mut row = self.rows[(h % self.rows.len() as u64) as usize].clone();
            if self.grouped {
                let rank = |a: &Act| match a {
                    Act::Send { .. } => 0,
                    Act::Local { .. } => 1,
                    _ => 2,
                };
                row.sort_by_key(rank);     // stable: issue order within each kind
            }
            if !self.stateless {
                self.st.idx += 1;
            }
            for a in row {
                match a {
                    Act::Send { dst, msg } => {
                        if let Some(p) = self.me {
                            CALLS.with(|c| c.borrow_mut().push(format!("XCALL {} SEND {}", p, dst)));
                        }
                        ctx.send(msg, pname(dst))
                    }
                    Act::Local { msg } => {
                        if let Some(p) = self.me {
                            CALLS.with(|c| c.borrow_mut().push(format!("XCALL {} LOCAL 0", p)));
                        }
                        ctx.send_local(msg)
                    }
                    Act::Timer { name, delay, once } => {
                        if let Some(p) = self.me {
                            CALLS.with(|c| c.borrow_mut().push(format!("XCALL {} {} {} {}", p, if once { "SETONCE" } else { "SET" }, name, delay.to_bits())));
                        }
                        if !self.stateless {
                            self.st.ptimers.insert(name);     // set: pending; set_once: pending either way
                        }
                        if once {
                            ctx.set_timer_once(&tname(name), delay)
                        } else {
                            ctx.set_timer(&tname(name), delay)
                        }
                    }
                    Act::Cancel { name } => {
                        if let Some(p) = self.me {
                            CALLS.with(|c| c.borrow_mut().push(format!("XCALL {} CANCEL {}", p, name)));
                        }
                        if !self.stateless {
                            self.st.ptimers.remove(&name);
                        }
                        ctx.cancel_timer(&tname(name))
                    }
                }
            }
        }
    }
}

pub fn msg_key(prefix: Vec<u64>, msg: &Message) -> Vec<u64> {
    let mut key = prefix;
    key.extend(msg.tip.as_bytes().iter().map(|b| *b as u64));
    key.push(KEY_SEP);
    key.extend(msg.data.as_bytes().iter().map(|b| *b as u64));
    key
}

impl Process for ScriptProc {
    fn on_message(&mut self, msg: Message, from: String, ctx: &mut Context) -> Result<(), String> {
        let key = msg_key(vec![1, num(&from)], &msg);
        self.handle(key, ctx);
        Ok(())
    }

    fn on_local_message(&mut self, msg: Message, ctx: &mut Context) -> Result<(), String> {
        let key = msg_key(vec![2], &msg);
        self.handle(key, ctx);
        Ok(())
    }

    fn on_timer(&mut self, timer: String, ctx: &mut Context) -> Result<(), String> {
        self.handle(vec![3, num(&timer)], ctx);
        Ok(())
    }

    fn state(&self) -> Result<Rc<dyn ProcessState>, String> {
        Ok(Rc::new(self.st.clone()))
    }

    fn set_state(&mut self, state: Rc<dyn ProcessState>) -> Result<(), String> {
        self.st = state.downcast_ref::<ScriptState>().expect("not a ScriptState").clone();
        Ok(())
    }
}

/// JSON description of a program for the Python twin (harness/py/script_proc.py)
pub fn spec_json(cap: u64, rows: &[Vec<Act>], flags: u64, raise_at: i64) -> String {
    let rows_j: Vec<serde_json::Value> = rows
        .iter()
        .map(|r| {
            serde_json::Value::Array(
                r.iter()
                    .map(|a| match a {
                        Act::Send { dst, msg } => serde_json::json!(["S", dst, msg.tip, msg.data]),
                        Act::Local { msg } => serde_json::json!(["L", msg.tip, msg.data]),
                        Act::Timer { name, delay, once } => serde_json::json!(["T", name, delay, once]),
                        Act::Cancel { name } => serde_json::json!(["C", name]),
                    })
                    .collect(),
            )
        })
        .collect();
    serde_json::json!({"cap": cap, "rows": rows_j, "flags": flags, "raise_at": raise_at}).to_string()
}

pub fn script_state(ps: &Rc<dyn ProcessState>) -> ScriptState {
    ps.downcast_ref::<ScriptState>().expect("not a ScriptState").clone()
}
