"""Python twin of the table-driven process of DESIGN Appendix A.1 (coq/theories/Model/Script.v,
harness/src/script_proc.rs).  Issues its actions in table order; the bridge relays them grouped by kind."""
import enum
import json
import struct

from anysystem import Context, Message, Process


def _num(name: str) -> int:
    return int(name[1:])


class _Mode(enum.IntEnum):
    """an attribute whose TYPE matters (a subclass of int): a state round trip must give back a _Mode, not an int"""
    IDLE = 0
    RUN = 1


class ScriptProc(Process):
    def __init__(self, spec_json: str):
        spec = json.loads(spec_json)
        self._cap = spec["cap"]
        self._rows = spec["rows"] if spec["rows"] else [[]]
        self._rectime = bool(spec["flags"] & 1)
        self._stateless = bool(spec["flags"] & 2)
        self._raise_at = spec.get("raise_at", -1)
        self._mode = _Mode.RUN
        self._ratio = 0.5
        self._flag = True
        # `_idx` and `_hist` are created LAZILY, by the first handler call (a common Python idiom): a state saved
        # before that call does not contain them, and restoring it must not leave a later value behind

    def _handle(self, key, ctx: Context):
        # uses the enum API and the exact types of its scalar attributes: fails if a restore turned them into
        # plain numbers (or a bool into an int)
        if self._mode.name != "RUN" or self._flag is not True or not isinstance(self._ratio, float):
            raise RuntimeError("attribute types changed by a state round trip")
        if getattr(self, "_idx", None) is None:
            self._idx = 0
        if getattr(self, "_hist", None) is None:
            self._hist = []
        time = struct.unpack("<Q", struct.pack("<d", float(ctx.time())))[0] if self._rectime else None
        if not self._stateless:
            self._hist.append((tuple(key), time))
        if self._raise_at >= 0 and len(self._hist) == self._raise_at:
            raise RuntimeError("scripted failure at invocation %d" % self._raise_at)
        if self._stateless or self._idx < self._cap:
            h = 0 if self._stateless else (self._idx * 31) % (1 << 32)
            for c in key:
                h = (h * 131 + c) % (1 << 32)
            row = self._rows[h % len(self._rows)]
            if not self._stateless:
                self._idx += 1
            # ONE message object per handler call, rewritten in place before every send (a handler that stamps a
            # reused message): every send must carry the content the object has at THAT call
            out = Message("", {})
            for a in row:
                if a[0] == "S":
                    out._type = a[2]
                    for k in list(out._data.keys()):
                        out.remove(k)
                    for k, v in json.loads(a[3]).items():
                        out[k] = v
                    ctx.send(out, "p%03d" % a[1])
                elif a[0] == "L":
                    out._type = a[1]
                    for k in list(out._data.keys()):
                        out.remove(k)
                    for k, v in json.loads(a[2]).items():
                        out[k] = v
                    ctx.send_local(out)
                elif a[0] == "T":
                    if a[3]:
                        ctx.set_timer_once("t%03d" % a[1], a[2])
                    else:
                        ctx.set_timer("t%03d" % a[1], a[2])
                elif a[0] == "C":
                    ctx.cancel_timer("t%03d" % a[1])

    @staticmethod
    def _poison(x):
        """handlers are free to modify the message they received: scribble over every nested container.  Each delivery
        must hand the process its own copy, so this can have no effect on later deliveries of an equal payload"""
        if isinstance(x, list):
            for y in x:
                ScriptProc._poison(y)
            x.append("poison")
        elif isinstance(x, dict):
            for y in list(x.values()):
                ScriptProc._poison(y)
            x["__poison"] = 1

    @staticmethod
    def _msg_key(prefix, msg: Message):
        data = json.dumps(msg._data)
        key = prefix + list(msg.type.encode()) + [256] + list(data.encode())
        ScriptProc._poison(msg._data)
        return key

    def on_message(self, msg: Message, sender: str, ctx: Context):
        self._handle(self._msg_key([1, _num(sender)], msg), ctx)

    def on_local_message(self, msg: Message, ctx: Context):
        self._handle(self._msg_key([2], msg), ctx)

    def on_timer(self, timer_name: str, ctx: Context):
        self._handle([3, _num(timer_name)], ctx)


class ScriptProcOwn(ScriptProc):
    """The same process with its own save/restore (what a process with large or unpicklable members does): the state
    is a JSON string, and restoring REWRITES the containers in place instead of rebinding the attributes."""

    def __init__(self, spec_json: str):
        super().__init__(spec_json)
        self._cnt = [0]
        self._hist = []

    # `_idx` lives in a one-element list, so that in-place restoration is possible
    @property
    def _idx(self):
        return self._cnt[0]

    @_idx.setter
    def _idx(self, v):
        self._cnt[0] = v

    def get_state(self) -> str:
        return json.dumps({"idx": self._cnt[0], "hist": [[list(k), t] for (k, t) in self._hist]})

    def set_state(self, state_encoded: str):
        d = json.loads(state_encoded)
        self._cnt[0] = d["idx"]
        self._hist[:] = [(tuple(k), t) for (k, t) in d["hist"]]
