(* Hand-written glue (trusted): number conversion, token reader, printers shared by all scenario classes. *)
open BinNums

let rec pos_of_int64 (x : int64) : positive =
  if Int64.equal x 1L then Coq_xH
  else
    let rest = pos_of_int64 (Int64.shift_right_logical x 1) in
    if Int64.equal (Int64.logand x 1L) 1L then Coq_xI rest else Coq_xO rest

let n_of_int64 (x : int64) : coq_N = if Int64.equal x 0L then N0 else Npos (pos_of_int64 x)
let n_of_int (x : int) : coq_N = n_of_int64 (Int64.of_int x)

let rec int64_of_pos (p : positive) : int64 =
  match p with
  | Coq_xH -> 1L
  | Coq_xO q -> Int64.shift_left (int64_of_pos q) 1
  | Coq_xI q -> Int64.logor (Int64.shift_left (int64_of_pos q) 1) 1L

let int64_of_n (n : coq_N) : int64 = match n with N0 -> 0L | Npos p -> int64_of_pos p
let int_of_n (n : coq_N) : int = Int64.to_int (int64_of_n n)
let string_of_n (n : coq_N) : string = Printf.sprintf "%Lu" (int64_of_n n)
let n_of_string (s : string) : coq_N = n_of_int64 (Int64.of_string ("0u" ^ s))

let nat_of_int (x : int) : Datatypes.nat =
  let rec go n acc = if n <= 0 then acc else go (n - 1) (Datatypes.S acc) in
  go x Datatypes.O

(* ---- token stream over one line ---- *)
type toks = { mutable rest : string list }
let toks_of_line (l : string) : toks =
  { rest = Stdlib.List.filter (fun s -> s <> "") (Stdlib.String.split_on_char ' ' l) }
let next_tok (t : toks) : string =
  match t.rest with
  | [] -> failwith "unexpected end of line"
  | x :: r -> t.rest <- r; x
let has_tok (t : toks) : bool = t.rest <> []
let next_n (t : toks) : coq_N = n_of_string (next_tok t)
let next_int (t : toks) : int = int_of_string (next_tok t)
let next_bool (t : toks) : bool = next_int t <> 0
let next_str (t : toks) : coq_N list =
  let len = next_int t in
  Stdlib.List.init len (fun _ -> next_n t)

let str_out (s : coq_N list) : string =
  Stdlib.String.concat " " (string_of_int (Stdlib.List.length s) :: Stdlib.List.map string_of_n s)
let ids_out (l : coq_N list) : string = Stdlib.String.concat " " (Stdlib.List.map string_of_n l)
let b01 (b : bool) : string = if b then "1" else "0"

let msg_of (t : toks) : Msg.msg =
  let tip = next_str t in
  let data = next_str t in
  { Msg.tip = tip; Msg.data = data }
let msg_out (m : Msg.msg) : string = str_out m.Msg.tip ^ " " ^ str_out m.Msg.data

(* scenario files: SCENARIO <class> <id> / lines / END *)
type scenario = { cls : string; sid : string; lines : string list }
let read_scenarios (path : string) : scenario list =
  let ic = open_in path in
  let res = ref [] in
  let cur = ref None in
  (try
     while true do
       let l = Stdlib.String.trim (input_line ic) in
       if l = "" || Stdlib.String.get l 0 = '#' then ()
       else if Stdlib.String.length l >= 8 && Stdlib.String.sub l 0 8 = "SCENARIO" then begin
         let t = toks_of_line l in
         let _ = next_tok t in
         let cls = next_tok t in
         let sid = next_tok t in
         cur := Some (cls, sid, [])
       end else if l = "END" then begin
         (match !cur with
          | Some (cls, sid, ls) -> res := { cls; sid; lines = Stdlib.List.rev ls } :: !res
          | None -> failwith "END without SCENARIO");
         cur := None
       end else
         match !cur with
         | Some (cls, sid, ls) -> cur := Some (cls, sid, l :: ls)
         | None -> failwith ("line outside scenario: " ^ l)
     done
   with End_of_file -> close_in ic);
  Stdlib.List.rev !res
