(* Entry point: model <scenario-file>  -> observation lines on stdout, one BEGIN/END block per scenario. *)
open Common

let run_scenario (sc : scenario) : string =
  match sc.cls with
  | "STORE" -> Store_drv.run sc
  | "SPECREPLAY" -> Store_drv.run_spec sc
  | "MC" -> Mc_drv.run sc
  | "MCREF" -> Mc_drv.run_ref sc
  | "SIM" -> Sim_drv.run sc
  | "HANDOFF" -> Handoff_drv.run sc
  | c -> "UNSUPPORTED " ^ c ^ "\n"

let () =
  let path = Sys.argv.(1) in
  let scs = read_scenarios path in
  Stdlib.List.iter (fun sc ->
      print_string (Printf.sprintf "BEGIN %s\n" sc.sid);
      (try print_string (run_scenario sc)
       with Failure m -> print_string ("DRIVERFAIL " ^ m ^ "\n")
          | Stack_overflow -> print_string "DRIVERFAIL stack overflow\n");
      print_string (Printf.sprintf "END %s\n" sc.sid))
    scs
