(* SIM scenarios: run the extracted simulator model (Model/Sim via Model/SimInst). *)
open Common
open BinNums
module SS = Stdlib.String
module LL = Stdlib.List
open Mc_drv   (* canonical text helpers: sn, cat, c_msg, c_log, c_pevent, c_hentry, c_ids, fnv, action_of *)

type sys = (coq_N, coq_N Script.pstate) Sim.simsys

let snetop_of (t : toks) : coq_N Sim.snetop =
  match next_tok t with
  | "DELAY" -> Sim.SSetDelay (next_n t)
  | "DELAYS" -> let a = next_n t in let b = next_n t in Sim.SSetDelays (a, b)
  | "DROPRATE" -> Sim.SSetDrop (next_n t)
  | "DUPLRATE" -> Sim.SSetDupl (next_n t)
  | "CORRUPTRATE" -> Sim.SSetCorrupt (next_n t)
  | "DROPIN" -> Sim.SDropIncoming (next_n t)
  | "PASSIN" -> Sim.SPassIncoming (next_n t)
  | "DROPOUT" -> Sim.SDropOutgoing (next_n t)
  | "PASSOUT" -> Sim.SPassOutgoing (next_n t)
  | "DISCONNECT" -> Sim.SDisconnect (next_n t)
  | "CONNECT" -> Sim.SConnect (next_n t)
  | "DISABLELINK" -> let a = next_n t in let b = next_n t in Sim.SDisableLink (a, b)
  | "ENABLELINK" -> let a = next_n t in let b = next_n t in Sim.SEnableLink (a, b)
  | "PARTITION" ->
    let k = next_int t in
    let g1 = LL.init k (fun _ -> next_n t) in
    let k2 = next_int t in
    let g2 = LL.init k2 (fun _ -> next_n t) in
    Sim.SPartition (g1, g2)
  | "RESET" -> Sim.SReset
  | s -> failwith ("bad snetop " ^ s)

let c_qevent (e : coq_N Sim.qevent) : string =
  Printf.sprintf "%s %s %s %s %s" (sn e.Sim.q_id) (sn e.Sim.q_time) (sn e.Sim.q_src) (sn e.Sim.q_dst)
    (match e.Sim.q_data with
     | Sim.QMsg (mid, m, src, snode, dst, dnode) ->
       Printf.sprintf "M %s %s %s %s %s %s" (sn mid) (c_msg m) (sn src) (sn snode) (sn dst) (sn dnode)
     | Sim.QTimer (p, tm) -> Printf.sprintf "T %s %s" (sn p) (sn tm))

(* the observable part of a simulator state (what the public API of System / Network / Node lets one read) *)
let c_simstate (s : sys) : string =
  let q = s.Sim.y_q in
  let n = s.Sim.y_net in
  Printf.sprintf "K%s|Q%s|C%s|%s|Wmax%s r%s d%s c%s in[%s] out[%s] links[%s] loc[%s] nc%s tr%s|PN[%s]"
    (sn q.Sim.q_clock)
    (cat ";" (LL.map c_qevent (SimInst.y_dump s)))
    (sn q.Sim.q_count)
    (cat "" (LL.map (fun (name, nd) ->
         Printf.sprintf "|N%s id%s c%s %s" (sn name) (sn nd.Sim.sd_id) (b01 nd.Sim.sd_crashed)
           (cat "" (LL.map (fun (pn, pe) ->
                Printf.sprintf "{P%s i%s h[%s] o[%s] s%s r%s e[%s]}" (sn pn) (sn pe.Log.pe_state.Script.ps_idx)
                  (cat "" (LL.map c_hentry pe.Log.pe_state.Script.ps_hist))
                  (cat ";" (LL.map c_msg pe.Log.pe_outbox)) (sn pe.Log.pe_sent) (sn pe.Log.pe_recv)
                  (cat ";" (LL.map (fun (t, e) -> sn t ^ " " ^ c_pevent e) pe.Log.pe_evlog)))
                nd.Sim.sd_procs)))
         s.Sim.y_nodes))
    (sn n.Sim.sn_max) (sn n.Sim.sn_drop) (sn n.Sim.sn_dupl) (sn n.Sim.sn_corrupt)
    (c_ids n.Sim.sn_drop_in) (c_ids n.Sim.sn_drop_out)
    (cat "," (LL.map (fun (a, b) -> sn a ^ ">" ^ sn b) n.Sim.sn_links))
    (cat "," (LL.map (fun (a, b) -> sn a ^ "@" ^ sn b) n.Sim.sn_loc))
    (sn n.Sim.sn_net_count) (sn n.Sim.sn_traffic)
    (cat "," (LL.map (fun (p, _) -> sn p) s.Sim.y_proc_nodes))

let c_sim_pv (s : sys) : string =
  cat "" (LL.map (fun (_, nd) ->
      cat "" (LL.map (fun (pn, pe) ->
          Printf.sprintf "{P%s i%s h[%s] o[%s]}" (sn pn) (sn pe.Log.pe_state.Script.ps_idx)
            (cat "" (LL.map c_hentry pe.Log.pe_state.Script.ps_hist)) (cat ";" (LL.map c_msg pe.Log.pe_outbox)))
          nd.Sim.sd_procs))
      s.Sim.y_nodes)

type runner = { feed : int -> string -> unit; get_sys : unit -> sys;
                get_progs : unit -> (coq_N * coq_N Script.prog) list; out : Buffer.t }

let make_runner () : runner =
  let b = Buffer.create 65536 in
  let add = Buffer.add_string b in
  let verbose = ref false in
  let progs = ref [] in
  let rows : (string, coq_N Log.action list list) Hashtbl.t = Hashtbl.create 8 in
  let stream = ref [] in
  let sys : sys ref = ref SimInst.y_sys0 in
  let nlog = ref 0 in
  let fuel = nat_of_int 100000 in
  let get_progs () =
    LL.fold_left (fun acc (p, cap, rt, nd, sl) ->
        let rs = LL.rev (try Hashtbl.find rows (sn p) with Not_found -> []) in
        Util.sins BinNat.N.compare p
          { Script.pg_cap = cap; Script.pg_rows = (if rs = [] then [[]] else rs); Script.pg_rectime = rt;
            Script.pg_ndraws = nat_of_int nd; Script.pg_stateless = sl } acc) [] !progs in
  let do_op (idx : int) (o : coq_N Sim.sop) =
    match SimInst.y_op (get_progs ()) !stream fuel !sys o with
    | Util.Panic _ -> add "PANIC\n"; raise Exit
    | Util.Ok (s', ret) ->
      sys := s';
      (* the scenario carries a finite prefix of the random stream: running past it is a generator fault *)
      if int_of_n (n_of_int (LL.length !stream)) < (let rec cnt n = match n with Datatypes.O -> 0 | Datatypes.S m -> 1 + cnt m in cnt s'.Sim.y_q.Sim.q_rand)
      then (add "DRAWS-EXHAUSTED\n"; raise Exit);
      (match ret with
       | Sim.RetUnit -> add "RET UNIT\n"
       | Sim.RetBool x -> add ("RET BOOL " ^ b01 x ^ "\n")
       | Sim.RetMsgs l -> add ("RET MSGS " ^ cat ";" (LL.map c_msg l) ^ "\n")
       | Sim.RetLocal None -> add "RET ERR\n"
       | Sim.RetLocal (Some l) -> add ("RET OK " ^ cat ";" (LL.map c_msg l) ^ "\n"));
      (* new trace entries *)
      let tr = s'.Sim.y_log in
      LL.iteri (fun i e -> if i >= !nlog then add ("LOG " ^ c_log e ^ "\n")) tr;
      nlog := LL.length tr;
      if !verbose then add ("STATE " ^ c_simstate s' ^ "\n") else add ("STATE " ^ fnv (c_simstate s') ^ "\n");
      (* plain facts for the monitors: clock, live queue size and earliest live time; counters *)
      let live = SimInst.y_dump s' in
      add (Printf.sprintf "Q %s %d %s\n" (sn s'.Sim.y_q.Sim.q_clock) (LL.length live)
             (match live with e :: _ -> sn e.Sim.q_time | [] -> "-"));
      add ("CNT " ^ cat " " (LL.concat (LL.map (fun (_, nd) ->
          LL.map (fun (pn, pe) ->
              Printf.sprintf "%s:%s:%s:%d:%d" (sn pn) (sn pe.Log.pe_sent) (sn pe.Log.pe_recv)
                (LL.length pe.Log.pe_outbox) (LL.length pe.Log.pe_evlog)) nd.Sim.sd_procs) s'.Sim.y_nodes)) ^ "\n");
      add (Printf.sprintf "NC %s %s\n" (sn s'.Sim.y_net.Sim.sn_net_count) (sn s'.Sim.y_net.Sim.sn_traffic));
      add ("PV " ^ fnv (c_sim_pv s') ^ "\n")
  in
  let feed idx line =
         let t = toks_of_line line in
         match next_tok t with
         | "VERBOSE" -> verbose := true
         | "SEED" -> ()
         | "DRAWS" -> stream := LL.map n_of_string t.rest
         | "PROG" ->
           let p = next_n t in let cap = next_n t in let fl = next_int t in let nd = next_int t in
           progs := !progs @ [(p, cap, fl land 1 <> 0, nd, fl land 2 <> 0)]
         | "ROW" ->
           let p = next_tok t in
           let k = next_int t in
           let acts = LL.init k (fun _ -> action_of t) in
           let old = try Hashtbl.find rows p with Not_found -> [] in
           Hashtbl.replace rows p (acts :: old)
         | "OP" ->
           let kw = next_tok t in
           add (Printf.sprintf "OP %d %s\n" idx kw);
           let o = (match kw with
               | "ADDNODE" -> Sim.YAddNode (next_n t)
               | "ADDPROC" -> let p = next_n t in let n = next_n t in Sim.YAddProcess (p, n)
               | "SKEW" -> let n = next_n t in let s = next_n t in Sim.YSetSkew (n, s)
               | "NET" -> Sim.YNet (snetop_of t)
               | "LOCAL" -> let p = next_n t in let m = msg_of t in Sim.YSendLocal (p, m)
               | "READ" -> Sim.YReadLocal (next_n t)
               | "CRASH" -> Sim.YCrash (next_n t)
               | "RECOVER" -> Sim.YRecover (next_n t)
               | "STEP" -> Sim.YStep
               | "STEPS" -> Sim.YSteps (next_n t)
               | "UNTILNOEVENTS" -> Sim.YStepUntilNoEvents
               | "DURATION" -> Sim.YStepForDuration (next_n t)
               | "UNTILLOCAL" -> Sim.YStepUntilLocal (next_n t)
               | "UNTILLOCALMAX" -> let p = next_n t in let k = next_n t in Sim.YStepUntilLocalMax (p, k)
               | "UNTILLOCALTIMEOUT" -> let p = next_n t in let d = next_n t in Sim.YStepUntilLocalTimeout (p, d)
               | s -> failwith ("bad SIM op " ^ s)) in
           do_op idx o
         | s -> failwith ("bad SIM line " ^ s) in
  { feed; get_sys = (fun () -> !sys); get_progs; out = b }

let run (sc : scenario) : string =
  let r = make_runner () in
  (try LL.iteri r.feed sc.lines with Exit -> ());
  Buffer.contents r.out
