(* MC scenarios: run the extracted model of the model checker (Model/McRun via Model/McInst). *)
open Common
open BinNums
module SS = Stdlib.String
module LL = Stdlib.List


(* ---------- canonical text of values (must match harness/src/canon.rs character by character) ---------- *)
let sn = string_of_n
let cat = SS.concat
let c_str (s : coq_N list) = str_out s
let c_msg (m : Msg.msg) = msg_out m
let c_ids (l : coq_N list) = cat "," (LL.map sn l)

let c_action (a : coq_N Log.action) : string =
  match a with
  | Log.ASend (m, d) -> Printf.sprintf "S %s %s" (sn d) (c_msg m)
  | Log.ALocal m -> "L " ^ c_msg m
  | Log.ATimerSet (n, d, o) -> Printf.sprintf "T %s %s %s" (sn n) (sn d) (b01 o)
  | Log.ATimerCancel n -> "C " ^ sn n

let c_pevent (e : coq_N Log.pevent) : string =
  match e with
  | Log.PMessageSent (m, s, d) -> Printf.sprintf "MS %s %s %s" (c_msg m) (sn s) (sn d)
  | Log.PMessageReceived (m, s, d) -> Printf.sprintf "MR %s %s %s" (c_msg m) (sn s) (sn d)
  | Log.PLocalMessageSent m -> "LS " ^ c_msg m
  | Log.PLocalMessageReceived m -> "LR " ^ c_msg m
  | Log.PTimerSet (n, d, o) -> Printf.sprintf "TS %s %s %s" (sn n) (sn d) (b01 o)
  | Log.PTimerFired n -> "TF " ^ sn n
  | Log.PTimerCancelled n -> "TC " ^ sn n

let c_log (e : coq_N Log.logentry) : string =
  match e with
  | Log.LNodeStarted (t, n, i) -> Printf.sprintf "NodeStarted %s %s %s" (sn t) (sn n) (sn i)
  | Log.LProcessStarted (t, n, p) -> Printf.sprintf "ProcessStarted %s %s %s" (sn t) (sn n) (sn p)
  | Log.LLocalMessageSent (t, n, p, c, m) -> Printf.sprintf "LocalMessageSent %s %s %s %s %s" (sn t) (sn n) (sn p) (sn c) (c_msg m)
  | Log.LLocalMessageReceived (t, n, p, c, m) ->
    Printf.sprintf "LocalMessageReceived %s %s %s %s %s" (sn t) (sn n) (sn p) (sn c) (c_msg m)
  | Log.LMessageSent (t, i, a, b, c, d, m) ->
    Printf.sprintf "MessageSent %s %s %s %s %s %s %s" (sn t) (sn i) (sn a) (sn b) (sn c) (sn d) (c_msg m)
  | Log.LMessageReceived (t, i, a, b, c, d, m) ->
    Printf.sprintf "MessageReceived %s %s %s %s %s %s %s" (sn t) (sn i) (sn a) (sn b) (sn c) (sn d) (c_msg m)
  | Log.LMessageDropped (t, i, a, b, c, d, m) ->
    Printf.sprintf "MessageDropped %s %s %s %s %s %s %s" (sn t) (sn i) (sn a) (sn b) (sn c) (sn d) (c_msg m)
  | Log.LNodeDisconnected (t, n) -> Printf.sprintf "NodeDisconnected %s %s" (sn t) (sn n)
  | Log.LNodeConnected (t, n) -> Printf.sprintf "NodeConnected %s %s" (sn t) (sn n)
  | Log.LNodeCrashed (t, n) -> Printf.sprintf "NodeCrashed %s %s" (sn t) (sn n)
  | Log.LNodeRecovered (t, n) -> Printf.sprintf "NodeRecovered %s %s" (sn t) (sn n)
  | Log.LTimerSet (t, i, nm, n, p, d) ->
    Printf.sprintf "TimerSet %s %s %s %s %s %s" (sn t) (sn i) (sn nm) (sn n) (sn p) (sn d)
  | Log.LTimerFired (t, i, nm, n, p) -> Printf.sprintf "TimerFired %s %s %s %s %s" (sn t) (sn i) (sn nm) (sn n) (sn p)
  | Log.LTimerCancelled (t, i, nm, n, p) ->
    Printf.sprintf "TimerCancelled %s %s %s %s %s" (sn t) (sn i) (sn nm) (sn n) (sn p)
  | Log.LLinkDisabled (t, a, b) -> Printf.sprintf "LinkDisabled %s %s %s" (sn t) (sn a) (sn b)
  | Log.LLinkEnabled (t, a, b) -> Printf.sprintf "LinkEnabled %s %s %s" (sn t) (sn a) (sn b)
  | Log.LDropIncoming (t, n) -> Printf.sprintf "DropIncoming %s %s" (sn t) (sn n)
  | Log.LPassIncoming (t, n) -> Printf.sprintf "PassIncoming %s %s" (sn t) (sn n)
  | Log.LDropOutgoing (t, n) -> Printf.sprintf "DropOutgoing %s %s" (sn t) (sn n)
  | Log.LPassOutgoing (t, n) -> Printf.sprintf "PassOutgoing %s %s" (sn t) (sn n)
  | Log.LNetworkPartition (t, a, b) -> Printf.sprintf "NetworkPartition %s [%s] [%s]" (sn t) (c_ids a) (c_ids b)
  | Log.LNetworkReset t -> "NetworkReset " ^ sn t
  | Log.LMcStarted -> "McStarted"
  | Log.LMcMessageSent (m, s, d) -> Printf.sprintf "McMessageSent %s %s %s" (c_msg m) (sn s) (sn d)
  | Log.LMcMessageReceived (m, s, d) -> Printf.sprintf "McMessageReceived %s %s %s" (c_msg m) (sn s) (sn d)
  | Log.LMcLocalMessageSent (m, p) -> Printf.sprintf "McLocalMessageSent %s %s" (c_msg m) (sn p)
  | Log.LMcLocalMessageReceived (m, p) -> Printf.sprintf "McLocalMessageReceived %s %s" (c_msg m) (sn p)
  | Log.LMcMessageDropped (m, s, d) -> Printf.sprintf "McMessageDropped %s %s %s" (c_msg m) (sn s) (sn d)
  | Log.LMcMessageDuplicated (m, s, d) -> Printf.sprintf "McMessageDuplicated %s %s %s" (c_msg m) (sn s) (sn d)
  | Log.LMcMessageCorrupted (m, cm, s, d) ->
    Printf.sprintf "McMessageCorrupted %s %s %s %s" (c_msg m) (c_msg cm) (sn s) (sn d)
  | Log.LMcTimerSet (p, t) -> Printf.sprintf "McTimerSet %s %s" (sn p) (sn t)
  | Log.LMcTimerFired (p, t) -> Printf.sprintf "McTimerFired %s %s" (sn p) (sn t)
  | Log.LMcTimerCancelled (p, t) -> Printf.sprintf "McTimerCancelled %s %s" (sn p) (sn t)
  | Log.LMcNodeCrashed n -> "McNodeCrashed " ^ sn n

(* the one place where the code's order is a heap's internal iteration order (the block of MessageDropped entries
   logged by one System::crash_node call) is canonicalised by sorting that block *)
let canon_entries (l : string list) : string list =
  let is_pref p s = SS.length s >= SS.length p && SS.sub s 0 (SS.length p) = p in
  let rec go acc l =
    match l with
    | [] -> LL.rev acc
    | e :: r when is_pref "NodeCrashed " e ->
      let rec split blk r = match r with
        | x :: r' when is_pref "MessageDropped " x -> split (x :: blk) r'
        | _ -> (blk, r) in
      let (blk, rest) = split [] r in
      go (LL.rev_append (LL.sort compare blk) (e :: acc)) rest
    | e :: r -> go (e :: acc) r in
  go [] l
let c_trace (l : coq_N Log.logentry list) : string = cat ";" (canon_entries (LL.map c_log l))

let c_hentry (h : coq_N Script.hentry) : string =
  Printf.sprintf "(%s|%s|%s)" (c_ids h.Script.he_key)
    (match h.Script.he_time with Some t -> sn t | None -> "-") (c_ids h.Script.he_draws)

let c_pentry (name : coq_N) (p : (coq_N, coq_N Script.pstate) Log.pentry) : string =
  Printf.sprintf "{P%s i%s h[%s] o[%s] t[%s] s%s r%s e[%s]}" (sn name)
    (sn p.Log.pe_state.Script.ps_idx)
    (cat "" (LL.map c_hentry p.Log.pe_state.Script.ps_hist))
    (cat ";" (LL.map c_msg p.Log.pe_outbox))
    (cat "," (LL.map (fun (n, i) -> sn n ^ ":" ^ sn i) p.Log.pe_ptimers))
    (sn p.Log.pe_sent) (sn p.Log.pe_recv)
    (cat ";" (LL.map (fun (t, e) -> sn t ^ " " ^ c_pevent e) p.Log.pe_evlog))


let c_net (n : coq_N McSys.mcnet) : string =
  Printf.sprintf "c%s d%s r%s in[%s] out[%s] links[%s] loc[%s] max%s"
    (sn n.McSys.n_corrupt) (sn n.McSys.n_dupl) (sn n.McSys.n_drop) (c_ids n.McSys.n_drop_in) (c_ids n.McSys.n_drop_out)
    (cat "," (LL.map (fun (a, b) -> sn a ^ ">" ^ sn b) n.McSys.n_links))
    (cat "," (LL.map (fun (a, b) -> sn a ^ "@" ^ sn b) n.McSys.n_loc))
    (sn n.McSys.n_maxdelay)

(* FNV-1a 64 over the bytes of a string, printed as unsigned decimal *)
let fnv (s : string) : string =
  let h = ref 0xcbf29ce484222325L in
  SS.iter (fun c -> h := Int64.mul (Int64.logxor !h (Int64.of_int (Char.code c))) 0x100000001b3L) s;
  Printf.sprintf "%Lu" !h

(* ---------- scenario parsing ---------- *)
let action_of (t : toks) : coq_N Log.action =
  match next_tok t with
  | "S" -> let d = next_n t in let m = msg_of t in Log.ASend (m, d)
  | "L" -> Log.ALocal (msg_of t)
  | "T" -> let n = next_n t in let d = next_n t in let o = next_bool t in Log.ATimerSet (n, d, o)
  | "C" -> Log.ATimerCancel (next_n t)
  | s -> failwith ("bad action " ^ s)

let netop_of (t : toks) : coq_N McSys.netop =
  match next_tok t with
  | "DROPRATE" -> McSys.NSetDrop (next_n t)
  | "DUPLRATE" -> McSys.NSetDupl (next_n t)
  | "CORRUPTRATE" -> McSys.NSetCorrupt (next_n t)
  | "DROPIN" -> McSys.NDropIncoming (next_n t)
  | "DROPOUT" -> McSys.NDropOutgoing (next_n t)
  | "DISCONNECT" -> McSys.NDisconnect (next_n t)
  | "DISABLELINK" -> let a = next_n t in let b = next_n t in McSys.NDisableLink (a, b)
  | "PARTITION" ->
    let k = next_int t in
    let g1 = LL.init k (fun _ -> next_n t) in
    let k2 = next_int t in
    let g2 = LL.init k2 (fun _ -> next_n t) in
    McSys.NPartition (g1, g2)
  | "RESET" -> McSys.NReset
  | s -> failwith ("bad netop " ^ s)

type predspec = { mutable inv : string list; mutable goal : string list; mutable prune : string list;
                  mutable collect : string list }
let rest_toks (t : toks) : string list = let r = t.rest in t.rest <- []; r

exception Fuel_exhausted
let check_count = ref 0
let check_limit = ref max_int

let live_out (l : (coq_N * coq_N Store.sevent) list) : string =
  cat " ; " (LL.map (fun (i, e) -> sn i ^ " " ^ Store_drv.event_out e) l)
let tmap_out (l : ((coq_N * coq_N) * coq_N) list) : string =
  cat " ; " (LL.map (fun ((p, n), i) -> Printf.sprintf "%s %s %s" (sn p) (sn n) (sn i)) l)

(* a store instance: the model of the code's PendingEvents, or the one-list reference semantics *)
module type INST = sig
  type se
  val name : string
  val empty : se
  val full_text : se -> string            (* everything, including internal indexes (concrete only) *)
  val red_text : se -> string             (* what both instances have: live, offered (both modes), counter, name map *)
  val is_empty : se -> bool
  val live : se -> (coq_N * coq_N Store.sevent) list
  val run : ((coq_N * coq_N) * coq_N) list -> (coq_N * coq_N Script.prog) list -> McRun.config ->
    (coq_N, se, coq_N Script.pstate) McRun.preds -> (coq_N, se, coq_N Script.pstate) McSys.mcsys -> coq_N McSys.cbop list ->
    (((coq_N, se, coq_N Script.pstate) McSys.mcsys * (coq_N, se, coq_N Script.pstate) McRun.mcresult)
     * (coq_N, se, coq_N Script.pstate) McSys.mcstate Search.sstate) Util.result
  val run_from_states : (((coq_N * coq_N) * coq_N) list -> (coq_N * coq_N Script.prog) list -> McRun.config ->
    (coq_N, se, coq_N Script.pstate) McRun.preds -> (coq_N, se, coq_N Script.pstate) McSys.mcsys -> coq_N McSys.cbop list ->
    (coq_N, se, coq_N Script.pstate) McSys.mcstate list ->
    (((coq_N, se, coq_N Script.pstate) McSys.mcsys * (coq_N, se, coq_N Script.pstate) McRun.mcresult)
     * (coq_N, se, coq_N Script.pstate) McSys.mcstate Search.sstate) Util.result) option
  val get_state : (coq_N, se, coq_N Script.pstate) McSys.mcsys -> (coq_N, se, coq_N Script.pstate) McSys.mcstate
  (* C19: the battery of library predicates (node of process 0, node of process 1, two payload strings) *)
  val battery : (coq_N -> coq_N -> coq_N list -> coq_N list -> (coq_N, se, coq_N Script.pstate) McSys.mcstate -> bool option list) option
end

module Concrete : INST with type se = coq_N Store.store = struct
  type se = coq_N Store.store
  let name = "model"
  let empty = Store.empty
  let full_text (s : se) =
    let b = Buffer.create 256 in
    Store_drv.dump_store b s;
    cat "/" (SS.split_on_char '\n' (SS.trim (Buffer.contents b)))
  let red_text (s : se) =
    let o = Store.observe s in
    Printf.sprintf "LIVE %s/OFF %s/OFFMF %s/NEXT %s/TMAP %s" (live_out o.Store.ob_live)
      (Store_drv.res_ids_out o.Store.ob_offered) (Store_drv.res_ids_out o.Store.ob_offered_mf) (sn o.Store.ob_next)
      (tmap_out s.Store.tmap)
  let is_empty s = match Store.is_empty s with Util.Ok b -> b | Util.Panic _ -> false
  let live s = s.Store.evs
  let run = McInst.i_run
  let run_from_states = Some (fun tab progs -> McInst.i_run_from_states tab progs (fun l -> l))
  let get_state = McInst.i_get_state
  let battery = Some PredInst.pred_battery
end

module Reference : INST with type se = coq_N StoreSpec.astore = struct
  type se = coq_N StoreSpec.astore
  let name = "reference"
  let empty = StoreSpec.aempty
  let red_text (a : se) =
    let o = StoreSpec.aobserve BinNat.N.leb a in
    Printf.sprintf "LIVE %s/OFF %s/OFFMF %s/NEXT %s/TMAP %s" (live_out o.Store.ob_live)
      (Store_drv.res_ids_out o.Store.ob_offered) (Store_drv.res_ids_out o.Store.ob_offered_mf) (sn o.Store.ob_next)
      (tmap_out a.StoreSpec.amap)
  let full_text = red_text
  let is_empty a = a.StoreSpec.pend = []
  let live a = StoreSpec.alive a
  let run = McInst.r_run
  let run_from_states = Some (fun tab progs -> McInst.r_run_from_states tab progs (fun l -> l))
  let get_state = McInst.r_get_state
  let battery = None
end

module Make (I : INST) = struct
  type st = (coq_N, I.se, coq_N Script.pstate) McSys.mcstate
  type sys = (coq_N, I.se, coq_N Script.pstate) McSys.mcsys

  let c_nodes (s : st) : string =
    cat "" (LL.map (fun (name, ns) ->
        Printf.sprintf "|N%s c%s %s" (sn name) (b01 ns.McSys.ns_crashed)
          (cat "" (LL.map (fun (pn, pe) -> c_pentry pn pe) ns.McSys.ns_procs)))
        s.McSys.st_nodes)
  let c_state_core (s : st) : string =
    Printf.sprintf "D%s%s|S%s|W%s" (sn s.McSys.st_depth) (c_nodes s) (I.full_text s.McSys.st_events) (c_net s.McSys.st_net)
  let c_state_red (s : st) : string =
    Printf.sprintf "D%s%s|S%s|W%s" (sn s.McSys.st_depth) (c_nodes s) (I.red_text s.McSys.st_events) (c_net s.McSys.st_net)
  let c_state (s : st) : string = c_state_core s ^ "|T" ^ c_trace s.McSys.st_trace
  (* the process-visible projection: per process its state and local outbox (what C04 compares) *)
  let c_state_pv (s : st) : string =
    cat "" (LL.map (fun (_, ns) ->
        cat "" (LL.map (fun (pn, pe) ->
            Printf.sprintf "{P%s i%s h[%s] o[%s]}" (sn pn) (sn pe.Log.pe_state.Script.ps_idx)
              (cat "" (LL.map c_hentry pe.Log.pe_state.Script.ps_hist)) (cat ";" (LL.map c_msg pe.Log.pe_outbox)))
            ns.McSys.ns_procs))
        s.McSys.st_nodes)
  (* the projection the checker's state equality looks at (process state, outbox, crash flag, pending events) *)
  let c_state_eqp (s : st) : string =
    cat "" (LL.map (fun (name, ns) ->
        Printf.sprintf "|N%s c%s %s" (sn name) (b01 ns.McSys.ns_crashed)
          (cat "" (LL.map (fun (pn, pe) ->
               Printf.sprintf "{P%s i%s h[%s] o[%s]}" (sn pn) (sn pe.Log.pe_state.Script.ps_idx)
                 (cat "" (LL.map c_hentry pe.Log.pe_state.Script.ps_hist)) (cat ";" (LL.map c_msg pe.Log.pe_outbox)))
               ns.McSys.ns_procs)))
        s.McSys.st_nodes) ^ "|S" ^ I.red_text s.McSys.st_events

  let find_proc (s : st) (p : coq_N) : (coq_N, coq_N Script.pstate) Log.pentry option =
    LL.fold_left (fun acc (_, ns) ->
        match acc with
        | Some _ -> acc
        | None -> Util.sget BinNat.N.compare p ns.McSys.ns_procs) None s.McSys.st_nodes
  let noevents (s : st) : bool = I.is_empty s.McSys.st_events

  (* the scenario's predicates as pure functions of the state *)
  let ios = int_of_string
  let outbox_len s p = match find_proc s (n_of_string p) with Some pe -> LL.length pe.Log.pe_outbox | None -> -1
  let hist_len s p = match find_proc s (n_of_string p) with Some pe -> LL.length pe.Log.pe_state.Script.ps_hist | None -> -1
  let e_inv (ps : predspec) (s : st) = match ps.inv with
    | ["NONE"] -> None
    | ["OUTBOXMAX"; p; k] -> if outbox_len s p > ios k then Some 1 else None
    | ["HISTMAX"; p; k] -> if hist_len s p > ios k then Some 2 else None
    | ["DEPTHMAX"; k] -> if int_of_n s.McSys.st_depth > ios k then Some 3 else None
    | _ -> failwith "bad INV"
  let e_goal (ps : predspec) (s : st) = match ps.goal with
    | ["NONE"] -> None
    | ["NOEVENTS"] -> if noevents s then Some 10 else None
    | ["OUTBOXEQ"; p; k] -> if outbox_len s p = ios k then Some 11 else None
    | ["DEPTHGE"; k] -> if int_of_n s.McSys.st_depth >= ios k then Some 12 else None
    | _ -> failwith "bad GOAL"
  let e_prune (ps : predspec) (s : st) = match ps.prune with
    | ["NONE"] -> None
    | ["DEPTHGT"; k] -> if int_of_n s.McSys.st_depth > ios k then Some 20 else None
    | ["SENTGT"; k] ->
      if LL.exists (fun (_, ns) -> LL.exists (fun (_, pe) -> int_of_n pe.Log.pe_sent > ios k) ns.McSys.ns_procs)
          s.McSys.st_nodes then Some 21 else None
    | _ -> failwith "bad PRUNE"
  let e_collect (ps : predspec) (s : st) = match ps.collect with
    | ["NONE"] -> false
    | ["OUTBOXEQ"; p; k] -> outbox_len s p = ios k
    | ["NOEVENTS"] -> noevents s
    | ["DEPTHEQ"; k] -> int_of_n s.McSys.st_depth = ios k
    | ["DEPTHLE"; k] -> int_of_n s.McSys.st_depth <= ios k
    | ["ALL"] -> true
    | _ -> failwith "bad COLLECT"
  let opt_n = function Some k -> Some (n_of_int k) | None -> None

  let mk_preds (ps : predspec) : (coq_N, I.se, coq_N Script.pstate) McRun.preds =
    let inv s =
      (* the harness stops the real run after check_limit predicate evaluations; so does the model *)
      if !check_count >= !check_limit then raise Fuel_exhausted;
      incr check_count;
      opt_n (e_inv ps s) in
    { McRun.pr_collect = e_collect ps; McRun.pr_inv = inv; McRun.pr_goal = (fun s -> opt_n (e_goal ps s));
      McRun.pr_prune = (fun s -> opt_n (e_prune ps s)) }

  (* C14 monitor data: does a pending event touch a process of a crashed node; digest of the crashed nodes' processes *)
  let crash_info (s : st) : string * string =
    let crashed = LL.filter (fun (_, ns) -> ns.McSys.ns_crashed) s.McSys.st_nodes in
    let cprocs = LL.concat (LL.map (fun (_, ns) -> LL.map fst ns.McSys.ns_procs) crashed) in
    let touches e = match e with
      | Store.EMsg (_, a, b, _) -> LL.mem a cprocs || LL.mem b cprocs
      | Store.ETimer (p, _, _) -> LL.mem p cprocs in
    let bad = LL.exists (fun (_, e) -> touches e) (I.live s.McSys.st_events) in
    let k = fnv (cat "" (LL.map (fun (name, ns) ->
        sn name ^ cat "" (LL.map (fun (pn, pe) -> c_pentry pn pe) ns.McSys.ns_procs)) crashed)) in
    (b01 bad, k)

  let verdict_text ps s =
    match e_inv ps s with
    | Some k -> "E" ^ string_of_int k
    | None ->
      match e_goal ps s with
      | Some k -> "G" ^ string_of_int k
      | None -> match e_prune ps s with Some k -> "P" ^ string_of_int k | None -> if noevents s then "E0" else "N"

  let run_from ?(init : (sys * (coq_N * coq_N) list * (coq_N * coq_N Script.prog) list * ((coq_N * coq_N) * coq_N) list) option)
      (lines : string list) : string =
    let b = Buffer.create 65536 in
    let add = Buffer.add_string b in
    let verbose = ref false in
    let nodes = ref [] in           (* (name, skew) in declaration order *)
    let procs = ref [] in           (* (proc, node, prog) in declaration order *)
    let rows : (string, coq_N Log.action list list) Hashtbl.t = Hashtbl.create 8 in
    let tab = ref [] in
    let net = ref (N0, N0, N0, N0, N0) in
    let cb = ref [] in
    let ps = { inv = ["NONE"]; goal = ["NONE"]; prune = ["NONE"]; collect = ["NONE"] } in
    let sys : sys option ref = ref None in
    let last_collected : st list ref = ref [] in
    (match init with
     | Some (s0, pn, _, t0) ->
       sys := Some s0; tab := t0;
       procs := LL.map (fun (p, n) -> (p, n, (N0, false, 0, false))) pn
     | None -> ());
    let progs () =
      match init with Some (_, _, pg, _) -> pg | None ->
      LL.fold_left (fun acc (p, _, (cap, rt, nd, sl)) ->
          let rs = LL.rev (try Hashtbl.find rows (sn p) with Not_found -> []) in
          Util.sins BinNat.N.compare p
            { Script.pg_cap = cap; Script.pg_rows = (if rs = [] then [[]] else rs); Script.pg_rectime = rt;
              Script.pg_ndraws = nat_of_int nd; Script.pg_stateless = sl } acc) [] !procs in
    let build_sys () : sys =
      let (dr, du, co, _mn, mx) = !net in
      let loc = LL.fold_left (fun acc (p, n, _) -> Util.sins BinNat.N.compare p n acc) [] !procs in
      let mk_node (name, skew) =
        let ps = LL.fold_left (fun acc (p, n, _) ->
            if n = name then
              Util.sins BinNat.N.compare p
                { Log.pe_state = Script.pstate0; Log.pe_evlog = []; Log.pe_outbox = []; Log.pe_ptimers = [];
                  Log.pe_sent = N0; Log.pe_recv = N0 } acc
            else acc) [] !procs in
        { McSys.nd_procs = ps; McSys.nd_skew = skew; McSys.nd_crashed = false } in
      let ns = LL.fold_left (fun acc (name, skew) -> Util.sins BinNat.N.compare name (mk_node (name, skew)) acc) [] !nodes in
      (* the trace a fresh System has logged: NodeStarted for each node (component ids 1,2,.. after "net"), then
         ProcessStarted for each process, all at time 0.0 *)
      let tr =
        LL.mapi (fun i (name, _) -> Log.LNodeStarted (N0, name, n_of_int (i + 1))) !nodes
        @ LL.map (fun (p, n, _) -> Log.LProcessStarted (N0, n, p)) !procs in
      { McSys.s_nodes = ns;
        McSys.s_net = { McSys.n_corrupt = co; McSys.n_dupl = du; McSys.n_drop = dr; McSys.n_drop_in = [];
                        McSys.n_drop_out = []; McSys.n_links = []; McSys.n_loc = loc; McSys.n_maxdelay = mx };
        McSys.s_events = I.empty; McSys.s_depth = N0; McSys.s_mf = false; McSys.s_trace = tr } in
    let get_sys () = match !sys with Some s -> s | None -> let s = build_sys () in sys := Some s; s in
    let state_line (s : st) : string =
      if !verbose then c_state s
      else
        let (x, k) = crash_info s in
        let node_of p = (match LL.find_opt (fun (q, _, _) -> q = n_of_int p) !procs with Some (_, n, _) -> n | None -> N0) in
        let bytes s = LL.init (SS.length s) (fun i -> n_of_int (Char.code (Stdlib.String.get s i))) in
        let pb = (match I.battery with
            | None -> "-"
            | Some f -> cat "" (LL.map (function Some true -> "1" | Some false -> "0" | None -> "x")
                                  (f (node_of 0) (node_of 1) (bytes "plain") (bytes "{\"k\": \"v\"}") s))) in
        let cr = cat "," (LL.map (fun (n, _) -> sn n) (LL.filter (fun (_, ns) -> ns.McSys.ns_crashed) s.McSys.st_nodes)) in
        Printf.sprintf "d=%s cr=[%s] ne=%d core=%s red=%s eqp=%s pv=%s tr=%s c=%s v=%s x=%s k=%s pb=%s" (sn s.McSys.st_depth)
          cr (LL.length (I.live s.McSys.st_events)) (fnv (c_state_core s))
          (fnv (c_state_red s)) (fnv (c_state_eqp s)) (fnv (c_state_pv s)) (fnv (c_trace s.McSys.st_trace)) (b01 (e_collect ps s)) (verdict_text ps s) x k pb in
    let report res =
      match res with
      | Util.Panic _ -> add "RESULT PANIC\n"
      | Util.Ok ((s', r), ss) ->
        LL.iteri (fun j x -> add (Printf.sprintf "CHECK %d %s\n" j (state_line x))) (LL.rev ss.Search.ss_checked);
        (match r with
         | McRun.ROk (stat, coll) ->
           add "RESULT OK\n";
           LL.iter (fun (k, c) -> add (Printf.sprintf "STATUS %s %s\n" (sn k) (sn c))) stat;
           let ds = LL.sort compare (LL.map (fun x -> fnv (c_state_red x) ^ ":" ^ fnv (c_trace x.McSys.st_trace)) coll) in
           add (Printf.sprintf "COLLECTED %d %s\n" (LL.length coll) (cat " " ds));
           last_collected := coll
         | McRun.RErr (m, tr) -> add (Printf.sprintf "RESULT ERR %s %d %s\n" (sn m) (LL.length tr) (fnv (c_trace tr)))
         | McRun.RFuel -> add "RESULT FUEL\n"
         | McRun.RPanic _ -> add "RESULT PANIC\n");
        sys := Some s';
        add (Printf.sprintf "AFTER %s\n" (state_line (I.get_state s')));
        add (Printf.sprintf "AFTERMODE %s\n" (b01 s'.McSys.s_mf)) in
    (try LL.iter (fun line ->
        let t = toks_of_line line in
        match next_tok t with
        | "VERBOSE" -> verbose := true
        | "NODE" -> let n = next_n t in let sk = next_n t in nodes := !nodes @ [(n, sk)]
        | "PROC" ->
          let p = next_n t in let n = next_n t in let cap = next_n t in let fl = next_int t in let nd = next_int t in
          (* flags: bit 0 = record the clock, bit 1 = stateless process *)
          procs := !procs @ [(p, n, (cap, fl land 1 <> 0, nd, fl land 2 <> 0))]
        | "ROW" ->
          let p = next_tok t in
          let k = next_int t in
          let acts = LL.init k (fun _ -> action_of t) in
          let old = try Hashtbl.find rows p with Not_found -> [] in
          Hashtbl.replace rows p (acts :: old)
        | "NET" ->
          let dr = next_n t in let du = next_n t in let co = next_n t in let mn = next_n t in let mx = next_n t in
          net := (dr, du, co, mn, mx)
        | "CLOCK" ->
          let d = next_n t in let sk = next_n t in let v = next_n t in
          tab := Util.sins Store.tkey_cmp (d, sk) v !tab
        | "CB" ->
          (match next_tok t with
           | "LOCAL" -> let n = next_n t in let p = next_n t in let m = msg_of t in cb := !cb @ [McSys.CbLocal (n, p, m)]
           | "CRASH" -> cb := !cb @ [McSys.CbCrash (next_n t)]
           | "MODE" -> cb := !cb @ [McSys.CbMode (next_bool t)]
           | "NET" -> cb := !cb @ [McSys.CbNet (netop_of t)]
           | s -> failwith ("bad CB " ^ s))
        | "PRED" ->
          (match next_tok t with
           | "INV" -> ps.inv <- rest_toks t
           | "GOAL" -> ps.goal <- rest_toks t
           | "PRUNE" -> ps.prune <- rest_toks t
           | "COLLECT" -> ps.collect <- rest_toks t
           | s -> failwith ("bad PRED " ^ s))
        | ("RUN" | "RUNFROM") as kw ->
          let strat = (match next_tok t with "BFS" -> Search.Bfs | "DFS" -> Search.Dfs | s -> failwith s) in
          let vm = (match next_tok t with
              | "FULL" -> Search.VFull | "PARTIAL" -> Search.VPartial | "DISABLED" -> Search.VDisabled | s -> failwith s) in
          let dbg = next_bool t in
          let fuel = next_int t in
          (* the model's own fuel bounds the BFS iterations / the DFS depth; it is set out of reach and the
             number of predicate evaluations is bounded instead, as in the harness *)
          let cf = { McRun.cf_strategy = strat; McRun.cf_vm = vm; McRun.cf_debug = dbg; McRun.cf_fuel = nat_of_int 1000000 } in
          add (Printf.sprintf "%s\n" kw);
          check_count := 0;
          check_limit := fuel;
          let pr = mk_preds ps in
          let s = get_sys () in
          add (Printf.sprintf "BEFORE %s\n" (state_line (I.get_state s)));
          (try
             (if kw = "RUN" then report (I.run !tab (progs ()) cf pr s !cb)
              else (match I.run_from_states with
                  | Some f -> report (f !tab (progs ()) cf pr s !cb !last_collected)
                  | None -> add "UNSUPPORTED RUNFROM\n"; raise Exit));
             cb := []
           with Fuel_exhausted -> add "RESULT FUEL\n"; raise Exit)
        | s -> failwith ("bad MC line " ^ s))
        lines
     with Exit -> ());
    Buffer.contents b
  let run (sc : scenario) : string = run_from sc.lines
end

module MC = Make (Concrete)
module MR = Make (Reference)
let run = MC.run
let run_ref = MR.run
