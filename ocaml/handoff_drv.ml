(* HANDOFF scenarios: simulate a prefix, snapshot with the model of ModelChecker::new, run the model checker,
   continue the simulation.  Lines: SIM lines (SEED/PROG/ROW/DRAWS/OP ...), then SNAPSHOT, then MC lines
   (CLOCK/CB/PRED/RUN), then CONTINUE, then SIM OP lines. *)
open Common
open BinNums
module LL = Stdlib.List

let run (sc : scenario) : string =
  let r = Sim_drv.make_runner () in
  let phase = ref 0 in
  let mc_lines = ref [] in
  let idx = ref 0 in
  (try
     LL.iter (fun line ->
         incr idx;
         let kw = (toks_of_line line).rest in
         match kw with
         | "SNAPSHOT" :: _ -> phase := 1
         | "CONTINUE" :: _ ->
           (* run the model checker on the snapshot *)
           let s = r.Sim_drv.get_sys () in
           (match SimInst.y_snapshot s with
            | Util.Panic _ -> Buffer.add_string r.Sim_drv.out "SNAPSHOT PANIC\n"; raise Exit
            | Util.Ok ms ->
              let pn = s.Sim.y_net.Sim.sn_loc in
              let clock = LL.filter (fun l -> match (toks_of_line l).rest with "CLOCK" :: _ -> true | _ -> false) !mc_lines in
              let tab = LL.fold_left (fun acc l ->
                  let t = toks_of_line l in
                  let _ = next_tok t in
                  let d = next_n t in let sk = next_n t in let v = next_n t in
                  Util.sins Store.tkey_cmp (d, sk) v acc) [] clock in
              let rest = LL.filter (fun l -> match (toks_of_line l).rest with "CLOCK" :: _ -> false | _ -> true) (LL.rev !mc_lines) in
              Buffer.add_string r.Sim_drv.out "SNAPSHOT\n";
              Buffer.add_string r.Sim_drv.out (Mc_drv.MC.run_from ~init:(ms, pn, r.Sim_drv.get_progs (), tab) rest));
           phase := 2
         | _ ->
           if !phase = 1 then mc_lines := line :: !mc_lines
           else r.Sim_drv.feed !idx line)
       sc.lines
   with Exit -> ());
  Buffer.contents r.Sim_drv.out
