(* STORE scenarios: run the extracted Model.Store and Spec.StoreSpec on an operation script. *)
open Common
open BinNums

let tleb = BinNat.N.leb

let opts_of (t : toks) : coq_N Store.dopts =
  match next_tok t with
  | "NF" -> Store.NoFailures (next_n t)
  | "PF" ->
    let d = next_bool t in
    let k = next_n t in
    let c = next_bool t in
    Store.Possible (d, k, c)
  | s -> failwith ("bad opts " ^ s)

let opts_out (o : coq_N Store.dopts) : string =
  match o with
  | Store.NoFailures d -> "NF " ^ string_of_n d
  | Store.Possible (d, k, c) -> Printf.sprintf "PF %s %s %s" (b01 d) (string_of_n k) (b01 c)

let event_out (e : coq_N Store.sevent) : string =
  match e with
  | Store.EMsg (m, s, d, o) -> Printf.sprintf "M %s %s %s %s" (msg_out m) (string_of_n s) (string_of_n d) (opts_out o)
  | Store.ETimer (p, n, d) -> Printf.sprintf "T %s %s %s" (string_of_n p) (string_of_n n) (string_of_n d)

let res_ids_out (r : coq_N list Util.result) : string =
  match r with Util.Ok l -> ids_out l | Util.Panic _ -> "PANIC"

let sout_out (o : coq_N Store.sout) : string =
  match o with
  | Store.RId i -> "ID " ^ string_of_n i
  | Store.RUnit -> "UNIT"
  | Store.REvent e -> "EV " ^ event_out e
  | Store.RDropped l ->
    "DROPPED " ^ Stdlib.String.concat " ; "
      (Stdlib.List.map (fun (i, e) ->
           match e with
           | Store.EMsg (m, s, d, _) ->
             Printf.sprintf "%s DROP %s %s %s" (string_of_n i) (msg_out m) (string_of_n s) (string_of_n d)
           | _ -> "OTHER") l)

let dump_store (b : Buffer.t) (s : coq_N Store.store) : unit =
  let add = Buffer.add_string b in
  let o = Store.observe s in
  add ("LIVE " ^ Stdlib.String.concat " ; "
         (Stdlib.List.map (fun (i, e) -> string_of_n i ^ " " ^ event_out e) o.Store.ob_live) ^ "\n");
  add ("OFF " ^ res_ids_out o.Store.ob_offered ^ "\n");
  add ("OFFMF " ^ res_ids_out o.Store.ob_offered_mf ^ "\n");
  add ("EMPTY " ^ (match Store.is_empty s with Util.Ok x -> b01 x | Util.Panic _ -> "PANIC") ^ "\n");
  add ("NEXT " ^ string_of_n o.Store.ob_next ^ "\n");
  add ("RAWAVAIL " ^ ids_out s.Store.avail ^ "\n");
  add ("TMAP " ^ Stdlib.String.concat " ; "
         (Stdlib.List.map (fun ((p, n), i) -> Printf.sprintf "%s %s %s" (string_of_n p) (string_of_n n) (string_of_n i))
            s.Store.tmap) ^ "\n");
  add ("RTIMERS " ^ Stdlib.String.concat " ; "
         (Stdlib.List.map (fun (i, t) ->
              Printf.sprintf "%s %s %s [%s]" (string_of_n i) (string_of_n t.Store.ti_proc)
                (string_of_n t.Store.ti_delay) (ids_out t.Store.ti_blockers))
            s.Store.r_timers) ^ "\n");
  add ("RMSGS " ^ Stdlib.String.concat " ; "
         (Stdlib.List.sort compare
            (Stdlib.List.map (fun ((m, (sr, ds)), q) ->
                 Printf.sprintf "%s %s %s [%s]" (msg_out m) (string_of_n sr) (string_of_n ds) (ids_out q))
               s.Store.r_msgs)) ^ "\n");
  add ("RPTIMERS " ^ Stdlib.String.concat " ; "
         (Stdlib.List.map (fun (p, l) -> Printf.sprintf "%s [%s]" (string_of_n p) (ids_out l)) s.Store.r_ptimers)
       ^ "\n")

let sop_out (o : coq_N Store.sop) : string =
  match o with
  | Store.OPush e -> "PUSH " ^ event_out e
  | Store.OPushFixed (e, i) -> "PUSHFIXED " ^ string_of_n i ^ " " ^ event_out e
  | Store.OPop i -> "POP " ^ string_of_n i
  | Store.OCancelTimer (p, n) -> Printf.sprintf "CANCELTIMER %s %s" (string_of_n p) (string_of_n n)
  | Store.OCancelProc p -> "CANCELPROC " ^ string_of_n p

let event_of (t : toks) : coq_N Store.sevent =
  match next_tok t with
  | "M" ->
    let m = msg_of t in
    let s = next_n t in
    let d = next_n t in
    let o = opts_of t in
    Store.EMsg (m, s, d, o)
  | "T" ->
    let p = next_n t in
    let n = next_n t in
    let d = next_n t in
    Store.ETimer (p, n, d)
  | s -> failwith ("bad event " ^ s)

let sop_of (t : toks) : coq_N Store.sop =
  match next_tok t with
  | "PUSH" -> Store.OPush (event_of t)
  | "PUSHFIXED" -> let i = next_n t in Store.OPushFixed (event_of t, i)
  | "POP" -> Store.OPop (next_n t)
  | "CANCELTIMER" -> let p = next_n t in let n = next_n t in Store.OCancelTimer (p, n)
  | "CANCELPROC" -> Store.OCancelProc (next_n t)
  | s -> failwith ("bad raw op " ^ s)

(* SPECREPLAY: raw operations (as the implementation performed them) through Spec.StoreSpec only.
   Lines: RAW <op> | DUMP.  Output: per RAW the spec's return value, per DUMP the spec's observation;
   ILLEGAL when an operation is not legal for the specification (the replay stops there). *)
let run_spec (sc : scenario) : string =
  let b = Buffer.create 4096 in
  let add = Buffer.add_string b in
  let a = ref (StoreSpec.aempty : coq_N StoreSpec.astore) in
  (try
     Stdlib.List.iter (fun line ->
         let t = toks_of_line line in
         match next_tok t with
         | "RAW" ->
           let o = sop_of t in
           if StoreSpec.legal !a o then begin
             let (a', out) = StoreSpec.astep !a o in
             a := a';
             add ("RET " ^ sout_out out ^ "\n")
           end else begin add "ILLEGAL\n"; raise Exit end
         | "DUMP" ->
           let o = StoreSpec.aobserve tleb !a in
           add ("LIVE " ^ Stdlib.String.concat " ; "
                  (Stdlib.List.map (fun (i, e) -> string_of_n i ^ " " ^ event_out e) o.Store.ob_live) ^ "\n");
           add ("OFF " ^ res_ids_out o.Store.ob_offered ^ "\n");
           add ("OFFMF " ^ res_ids_out o.Store.ob_offered_mf ^ "\n");
           add ("EMPTY " ^ b01 (o.Store.ob_live = []) ^ "\n");
           add ("NEXT " ^ string_of_n o.Store.ob_next ^ "\n")
         | s -> failwith ("bad SPECREPLAY line " ^ s))
       sc.lines
   with Exit -> ());
  Buffer.contents b

exception Stop

(* state threaded: model store, spec store (None once the sequence became illegal) *)
let run (sc : scenario) : string =
  let b = Buffer.create 4096 in
  let opb = Buffer.create 256 in
  let add = Buffer.add_string opb in
  let st = ref (Store.empty : coq_N Store.store) in
  let sp = ref (Some (StoreSpec.aempty : coq_N StoreSpec.astore)) in
  let legal_ops = ref 0 in
  let spec_mismatch = ref None in
  let last_popped = ref None in
  let apply_raw (idx : int) (o : coq_N Store.sop) : unit =
    add ("RAW " ^ sop_out o ^ "\n");
    (* spec first (on the legal prefix) *)
    let spec_res =
      match !sp with
      | None -> None
      | Some a ->
        if StoreSpec.legal a o then begin
          let (a', out) = StoreSpec.astep a o in
          sp := Some a'; incr legal_ops; Some (out, StoreSpec.aobserve tleb a')
        end else begin sp := None; None end
    in
    match Store.step tleb !st o with
    | Util.Panic _ ->
      (match spec_res with Some _ -> spec_mismatch := Some (idx, "model panics on a legal op") | None -> ());
      raise Stop
    | Util.Ok (s', out) ->
      st := s';
      add ("RET " ^ sout_out out ^ "\n");
      (match out with Store.REvent e -> last_popped := Some e | _ -> ());
      (match spec_res with
       | Some (aout, aobs) ->
         if aout <> out || aobs <> Store.observe s' then
           (if !spec_mismatch = None then spec_mismatch := Some (idx, "model and spec outputs differ"))
       | None -> ())
  in
  let nth_mod (l : 'a list) (k : int) : 'a option =
    match l with [] -> None | _ -> Some (Stdlib.List.nth l (k mod Stdlib.List.length l)) in
  let offered_now () = match Store.offered !st false with Util.Ok l -> l | Util.Panic _ -> [] in
  (try
     Stdlib.List.iteri (fun idx line ->
         let t = toks_of_line line in
         let kw = next_tok t in
         Buffer.add_string b (Printf.sprintf "OP %d %s\n" idx kw);
         Buffer.clear opb;
         (match kw with
          | "PUSHMSG" ->
            let m = msg_of t in
            let s = next_n t in
            let d = next_n t in
            let o = opts_of t in
            apply_raw idx (Store.OPush (Store.EMsg (m, s, d, o)))
          | "PUSHTIMER" ->
            let p = next_n t in
            let n = next_n t in
            let d = next_n t in
            apply_raw idx (Store.OPush (Store.ETimer (p, n, d)))
          | "POPOFF" ->
            (match nth_mod (offered_now ()) (next_int t) with
             | None -> add "SKIP\n"
             | Some i -> add ("SEL " ^ string_of_n i ^ "\n"); apply_raw idx (Store.OPop i))
          | "POPLIVE" ->
            (match nth_mod (Stdlib.List.map fst !st.Store.evs) (next_int t) with
             | None -> add "SKIP\n"
             | Some i -> add ("SEL " ^ string_of_n i ^ "\n"); apply_raw idx (Store.OPop i))
          | "DUP" ->
            (match nth_mod (offered_now ()) (next_int t) with
             | None -> add "SKIP\n"
             | Some i ->
               (match Util.sget BinNat.N.compare i !st.Store.evs with
                | Some (Store.EMsg (m, s, d, Store.Possible (dr, k, c))) when int_of_n k > 0 ->
                  add ("SEL " ^ string_of_n i ^ "\n");
                  apply_raw idx (Store.OPop i);
                  apply_raw idx (Store.OPushFixed (Store.EMsg (m, s, d, Store.Possible (dr, n_of_int (int_of_n k - 1), c)), i));
                  apply_raw idx (Store.OPush (Store.EMsg (m, s, d, Store.Possible (dr, N0, c))))
                | _ -> add "SKIP\n"))
          | "CORRUPT" ->
            (match nth_mod (offered_now ()) (next_int t) with
             | None -> add "SKIP\n"
             | Some i ->
               (match Util.sget BinNat.N.compare i !st.Store.evs with
                | Some (Store.EMsg (m, s, d, Store.Possible (dr, k, true))) ->
                  add ("SEL " ^ string_of_n i ^ "\n");
                  apply_raw idx (Store.OPop i);
                  apply_raw idx (Store.OPushFixed (Store.EMsg (Msg.corrupt_msg m, s, d, Store.Possible (dr, k, false)), i))
                | _ -> add "SKIP\n"))
          | "REINSERT" ->
            (* re-insert the last popped message under a chosen raw id *)
            let i = next_n t in
            (match !last_popped with
             | Some (Store.EMsg (_, _, _, _) as e) -> apply_raw idx (Store.OPushFixed (e, i))
             | _ -> add "SKIP\n")
          | "CANCELTIMER" ->
            let p = next_n t in
            let n = next_n t in
            apply_raw idx (Store.OCancelTimer (p, n))
          | "CANCELPROC" ->
            let p = next_n t in
            apply_raw idx (Store.OCancelProc p)
          | "RAWPOP" ->
            let i = next_n t in
            apply_raw idx (Store.OPop i)
          | s -> failwith ("bad STORE op " ^ s));
         Buffer.add_buffer b opb;
         dump_store b !st)
       sc.lines
   with Stop ->
     Stdlib.List.iter (fun l ->
         if Stdlib.String.length l >= 4 && Stdlib.String.sub l 0 4 = "RAW " then Buffer.add_string b (l ^ "\n"))
       (Stdlib.String.split_on_char '\n' (Buffer.contents opb));
     Buffer.add_string b "PANIC\n");
  (* model-vs-spec information: not compared with the implementation *)
  Buffer.add_string b (Printf.sprintf "#SPEC legal_ops=%d still_legal=%s mismatch=%s\n" !legal_ops
         (b01 (!sp <> None))
         (match !spec_mismatch with None -> "none" | Some (i, s) -> Printf.sprintf "op%d:%s" i s));
  Buffer.contents b
